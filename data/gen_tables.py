#!/usr/bin/env python3
"""Provenance of /verif/data/golden_tables.json (the C20 oracle).

Nothing here reads /repo.  Sources:
  * LAT1  : identity on 0..255 (ISO 8859-1 == first 256 Unicode code points).
  * VT100 : DEC Special Graphics as mapped by the Linux console (drivers/tty/vt/consolemap.c,
            translations[GRAF_MAP]): identity except the entries typed in below
            (0x2b-0x2e arrows, 0x30 full block, 0x5f NBSP, 0x60-0x7e line drawing).
  * IBMPC : CP437. 0x20-0x7e and 0x80-0xff are taken from Python's own `cp437` codec;
            0x00-0x1f and 0x7f are the IBM glyph code points of the Linux console
            (translations[IBMPC_MAP] / cp437.uni primary code points), typed in below.
  * VAX42 : the pyte/Linux "user" VAX42 table = IBMPC with eight Cyrillic substitutions,
            typed in below (there is no second published source for this table; the list
            is part of the trusted base and named as such in DESIGN.md).
"""
import json, os

lat1 = list(range(256))

vt100 = list(range(256))
vt100[0x2b:0x2f] = [0x2192, 0x2190, 0x2191, 0x2193]
vt100[0x30] = 0x2588
vt100[0x5f] = 0x00a0
vt100[0x60:0x7f] = [
    0x25c6, 0x2592, 0x2409, 0x240c, 0x240d, 0x240a, 0x00b0, 0x00b1,
    0x2591, 0x240b, 0x2518, 0x2510, 0x250c, 0x2514, 0x253c, 0x23ba,
    0x23bb, 0x2500, 0x23bc, 0x23bd, 0x251c, 0x2524, 0x2534, 0x252c,
    0x2502, 0x2264, 0x2265, 0x03c0, 0x2260, 0x00a3, 0x00b7,
]
assert len(vt100) == 256

ibm_low = [
    0x0000, 0x263a, 0x263b, 0x2665, 0x2666, 0x2663, 0x2660, 0x2022,
    0x25d8, 0x25cb, 0x25d9, 0x2642, 0x2640, 0x266a, 0x266b, 0x263c,
    0x25b6, 0x25c0, 0x2195, 0x203c, 0x00b6, 0x00a7, 0x25ac, 0x21a8,
    0x2191, 0x2193, 0x2192, 0x2190, 0x221f, 0x2194, 0x25b2, 0x25bc,
]
ibmpc = [ord(bytes([i]).decode("cp437")) for i in range(256)]
ibmpc[0:32] = ibm_low
ibmpc[0x7f] = 0x2302
assert len(ibmpc) == 256

vax42 = list(ibmpc)
for k, v in {0x21: 0x043b, 0x3f: 0x0435, 0x61: 0x0441, 0x68: 0x0435,
             0x6f: 0x043a, 0x72: 0x0442, 0x74: 0x043b, 0x75: 0x0435}.items():
    vax42[k] = v

# xterm 256-colour palette, computed (C08 oracle uses the same formula in Rust; this copy is
# only emitted for human inspection)
base16 = ["000000", "cd0000", "00cd00", "cdcd00", "0000ee", "cd00cd", "00cdcd", "e5e5e5",
          "7f7f7f", "ff0000", "00ff00", "ffff00", "5c5cff", "ff00ff", "00ffff", "ffffff"]
steps = [0x00, 0x5f, 0x87, 0xaf, 0xd7, 0xff]
pal = list(base16)
for i in range(216):
    pal.append("%02x%02x%02x" % (steps[i // 36 % 6], steps[i // 6 % 6], steps[i % 6]))
for i in range(24):
    v = 8 + 10 * i
    pal.append("%02x%02x%02x" % (v, v, v))
assert len(pal) == 256

out = {"B": lat1, "0": vt100, "U": ibmpc, "V": vax42, "palette256": pal}
here = os.path.dirname(os.path.abspath(__file__))
with open(os.path.join(here, "golden_tables.json"), "w") as f:
    json.dump(out, f, separators=(",", ":"))
    f.write("\n")
print("written", {k: len(v) for k, v in out.items()})
