//! Miri slice for C01: Screen-API-only histories (the Parser's coroutine cannot run under Miri:
//! getrlimit FFI + inline assembly).  argv[1] = seed, argv[2] = number of steps.
use memterm::parser_listener::ParserListener;
use memterm::screen::Screen;

struct R(u64);
impl R {
    fn next(&mut self) -> u64 {
        self.0 ^= self.0 << 13;
        self.0 ^= self.0 >> 7;
        self.0 ^= self.0 << 17;
        self.0
    }
    fn below(&mut self, n: u64) -> u64 {
        self.next() % n
    }
    fn param(&mut self, size: u32) -> Option<u32> {
        match self.below(8) {
            0 => None,
            1 => Some(0),
            2 => Some(1),
            3 => Some(size),
            4 => Some(size + 1),
            5 => Some(9999),
            _ => Some(self.below(size as u64 + 3) as u32),
        }
    }
}

fn main() {
    let args: Vec<String> = std::env::args().collect();
    let seed: u64 = args.get(1).and_then(|s| s.parse().ok()).unwrap_or(1);
    let steps: usize = args.get(2).and_then(|s| s.parse().ok()).unwrap_or(100);
    let mut r = R(seed.wrapping_mul(0x9E3779B97F4A7C15) | 1);
    let geoms = [(1u32, 1u32), (3, 2), (8, 3)];
    let (c, l) = geoms[(seed % 3) as usize];
    let mut s = Screen::new(c, l);
    let texts = ["a", "xyz", "コ", "e\u{0308}", "\u{200b}", "\0", "wrap-around text", "\u{0308}", "é日"];
    for _ in 0..steps {
        let (cc, ll) = (s.columns, s.lines);
        match r.below(34) {
            0 => s.draw(texts[r.below(texts.len() as u64) as usize]),
            1 => s.cursor_position(r.param(ll), r.param(cc)),
            2 => s.cursor_up(r.param(ll)),
            3 => s.cursor_down(r.param(ll)),
            4 => s.cursor_forward(r.param(cc)),
            5 => s.cursor_back(r.param(cc)),
            6 => s.insert_characters(r.param(cc)),
            7 => s.delete_characters(r.param(cc)),
            8 => s.erase_characters(r.param(cc)),
            9 => s.erase_in_line(r.param(3), None),
            10 => s.erase_in_display(r.param(3), None),
            11 => s.insert_lines(r.param(ll)),
            12 => s.delete_lines(r.param(ll)),
            13 => s.index(),
            14 => s.reverse_index(),
            15 => s.linefeed(),
            16 => s.set_margins(r.param(ll), r.param(ll)),
            17 => {
                let m = [3u32, 4, 5, 6, 7, 20, 25][r.below(7) as usize];
                let p = r.below(2) == 0;
                if r.below(2) == 0 {
                    s.set_mode(&[m], p)
                } else {
                    s.reset_mode(&[m], p)
                }
            }
            18 => s.select_graphic_rendition(&[r.below(110) as u32, 38, 5, r.below(300) as u32]),
            19 => s.select_graphic_rendition(&[48, 2, r.below(300) as u32, 2, 3]),
            20 => s.save_cursor(),
            21 => s.restore_cursor(),
            22 => s.tab(),
            23 => s.set_tab_stop(),
            24 => s.clear_tab_stop(r.param(3)),
            25 => s.resize(Some(1 + r.below(6) as u32), Some(1 + r.below(12) as u32)),
            26 => {
                let d = s.display();
                assert_eq!(d.len() as u32, s.lines);
            }
            27 => s.alignment_display(),
            28 => s.define_charset(["B", "0", "U", "V", "x"][r.below(5) as usize], ["(", ")"][r.below(2) as usize]),
            29 => s.shift_out(),
            30 => s.shift_in(),
            31 => s.cursor_to_column(r.param(cc)),
            32 => s.cursor_to_line(r.param(ll)),
            _ => s.backspace(),
        }
        assert!(s.cursor.y < s.lines && s.cursor.x <= s.columns);
    }
    let d = s.display();
    assert_eq!(d.len() as u32, s.lines);
    println!("miri-slice seed {} steps {} ok", seed, steps);
}
