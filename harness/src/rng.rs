//! Small deterministic PRNG (splitmix64 seeding + xoshiro256**). No external crates.

#[derive(Clone, Debug)]
pub struct Rng {
    s: [u64; 4],
}

fn splitmix(x: &mut u64) -> u64 {
    *x = x.wrapping_add(0x9E3779B97F4A7C15);
    let mut z = *x;
    z = (z ^ (z >> 30)).wrapping_mul(0xBF58476D1CE4E5B9);
    z = (z ^ (z >> 27)).wrapping_mul(0x94D049BB133111EB);
    z ^ (z >> 31)
}

impl Rng {
    pub fn new(seed: u64) -> Self {
        let mut x = seed ^ 0xA5A5_5A5A_DEAD_BEEF;
        let s = [
            splitmix(&mut x),
            splitmix(&mut x),
            splitmix(&mut x),
            splitmix(&mut x),
        ];
        Rng { s }
    }
    /// derive an independent stream
    pub fn fork(&mut self, salt: u64) -> Rng {
        let a = self.next();
        Rng::new(a ^ salt.wrapping_mul(0x9E3779B97F4A7C15))
    }
    pub fn next(&mut self) -> u64 {
        let r = self.s[1].wrapping_mul(5).rotate_left(7).wrapping_mul(9);
        let t = self.s[1] << 17;
        self.s[2] ^= self.s[0];
        self.s[3] ^= self.s[1];
        self.s[1] ^= self.s[2];
        self.s[0] ^= self.s[3];
        self.s[2] ^= t;
        self.s[3] = self.s[3].rotate_left(45);
        r
    }
    /// uniform in 0..n (n > 0)
    pub fn below(&mut self, n: u64) -> u64 {
        debug_assert!(n > 0);
        self.next() % n
    }
    pub fn range(&mut self, lo: u32, hi_incl: u32) -> u32 {
        lo + self.below((hi_incl - lo) as u64 + 1) as u32
    }
    pub fn usize(&mut self, n: usize) -> usize {
        self.below(n as u64) as usize
    }
    pub fn chance(&mut self, num: u64, den: u64) -> bool {
        self.below(den) < num
    }
    pub fn pick<'a, T>(&mut self, v: &'a [T]) -> &'a T {
        &v[self.usize(v.len())]
    }
    pub fn bool(&mut self) -> bool {
        self.next() & 1 == 1
    }
    pub fn shuffle<T>(&mut self, v: &mut [T]) {
        for i in (1..v.len()).rev() {
            let j = self.usize(i + 1);
            v.swap(i, j);
        }
    }
}

pub fn hash64(s: &str) -> u64 {
    // FNV-1a 64
    let mut h: u64 = 0xcbf29ce484222325;
    for b in s.as_bytes() {
        h ^= *b as u64;
        h = h.wrapping_mul(0x100000001b3);
    }
    h
}
