//! The system under observation: a real `Screen` behind a pass-through recording listener
//! (`Tap`), optionally driven by the real `Parser` / `ByteParser`.
//!
//! The Tap's methods execute on the parser's 32 KiB coroutine stack, so they only *record*
//! (call, post-snapshot, stack pointer); all judging happens after `feed()` returned.

use std::cell::RefCell;
use std::panic::{catch_unwind, AssertUnwindSafe};
use std::sync::{Arc, Mutex, MutexGuard, Once};

use memterm::byte_parser::ByteParser;
use memterm::parser::Parser;
use memterm::parser_listener::ParserListener;
use memterm::screen::Screen;
use serde::{Deserialize, Serialize};

use crate::call::Call;
use crate::snapshot::{snapshot, snapshot_with, Snap};

// ---------------------------------------------------------------------------------------------
// panic capture
// ---------------------------------------------------------------------------------------------

#[derive(Clone, Debug)]
pub struct PanicInfo {
    pub msg: String,
    pub loc: String,
}

thread_local! {
    static LAST_PANIC: RefCell<Option<PanicInfo>> = RefCell::new(None);
    static IN_CATCH: RefCell<u32> = RefCell::new(0);
    /// the last panic that nobody caught: (message, location, raised inside the code under test?)
    static UNCAUGHT: RefCell<Option<(String, String, bool)>> = RefCell::new(None);
}

/// Was the source file of a panic part of the code under test? The harness (root package) is
/// compiled with relative paths, the path dependency on the repository with absolute ones;
/// registry crates and the standard library are recognised by their directories.
fn in_code_under_test(file: &str) -> bool {
    file.starts_with('/') && !file.contains("/.cargo/") && !file.contains("/rustc/") && !file.contains("/.rustup/") && !file.contains("/rustlib/") && !file.contains("/harness/src/")
}

/// (message, location, in the code under test) of a panic raised outside every `catch`
pub fn uncaught_panic() -> Option<(String, String, bool)> {
    UNCAUGHT.with(|u| u.borrow().clone())
}
static HOOK: Once = Once::new();

pub fn install_panic_hook() {
    HOOK.call_once(|| {
        std::panic::set_hook(Box::new(|info| {
            let msg = if let Some(s) = info.payload().downcast_ref::<&str>() {
                s.to_string()
            } else if let Some(s) = info.payload().downcast_ref::<String>() {
                s.clone()
            } else {
                "<non-string panic>".to_string()
            };
            let loc = info
                .location()
                .map(|l| {
                    let f = l.file();
                    // keep only the part from "src/" on, so signatures do not depend on where
                    // the repository is checked out
                    let f = f.rfind("src/").map(|i| &f[i..]).unwrap_or(f);
                    format!("{}:{}", f, l.line())
                })
                .unwrap_or_default();
            if IN_CATCH.with(|c| *c.borrow()) == 0 {
                // a panic outside every judged operation: make it visible (worker stderr file) and
                // remember whether it was raised by the code under test (e.g. in Screen::new) or by
                // the harness itself
                let sut = info.location().map(|l| in_code_under_test(l.file())).unwrap_or(false);
                eprintln!("{} PANIC: {} at {:?}", if sut { "UNCAUGHT MEMTERM" } else { "HARNESS" }, msg, info.location());
                UNCAUGHT.with(|u| *u.borrow_mut() = Some((msg.clone(), loc.clone(), sut)));
            }
            LAST_PANIC.with(|p| {
                let mut p = p.borrow_mut();
                // keep the FIRST panic of a case (a poisoned-mutex follow-up is not the cause)
                if p.is_none() {
                    *p = Some(PanicInfo { msg, loc });
                }
            });
        }));
    });
}

/// Run `f`, converting an unwind into Err(PanicInfo).
pub fn catch<T>(f: impl FnOnce() -> T) -> Result<T, PanicInfo> {
    install_panic_hook();
    LAST_PANIC.with(|p| *p.borrow_mut() = None);
    IN_CATCH.with(|c| *c.borrow_mut() += 1);
    let r = catch_unwind(AssertUnwindSafe(f));
    IN_CATCH.with(|c| *c.borrow_mut() -= 1);
    match r {
        Ok(v) => Ok(v),
        Err(_) => Err(LAST_PANIC
            .with(|p| p.borrow_mut().take())
            .unwrap_or(PanicInfo { msg: "<unknown panic>".into(), loc: String::new() })),
    }
}

/// stable, seed-independent description of a panic: message with digits collapsed + source line
pub fn panic_sig(p: &PanicInfo) -> String {
    let mut m = String::new();
    let mut last_digit = false;
    for c in p.msg.chars().take(80) {
        if c.is_ascii_digit() {
            if !last_digit {
                m.push('N');
            }
            last_digit = true;
        } else {
            last_digit = false;
            m.push(if c == ':' || c == ' ' { '_' } else { c });
        }
    }
    // line numbers move with unrelated edits: keep the file only
    let file = p.loc.split(':').next().unwrap_or("");
    format!("{}@{}", m, file)
}

// ---------------------------------------------------------------------------------------------
// Tap
// ---------------------------------------------------------------------------------------------

#[derive(Clone, Debug)]
pub struct Ev {
    pub call: Call,
    /// snapshot after the call returned (None if the call did not return)
    pub post: Option<Snap>,
    /// true if the call arrived from the parser (coroutine or plain-text fast path)
    pub via_parser: bool,
}

pub struct Tap {
    pub scr: Screen,
    pub ev: Vec<Ev>,
    /// record per-call snapshots (otherwise only the calls)
    pub snaps: bool,
    /// record anything at all
    pub record: bool,
    pub in_feed: bool,
    /// lowest stack address seen at the entry of a listener method while in_feed
    pub sp_min: usize,
    pub sp_max: usize,
    pub calls: u64,
    /// previous snapshot (row sharing)
    pub last: Option<Snap>,
}

impl Tap {
    pub fn new(scr: Screen) -> Tap {
        Tap { scr, ev: Vec::new(), snaps: true, record: true, in_feed: false, sp_min: usize::MAX, sp_max: 0, calls: 0, last: None }
    }
    #[inline(always)]
    fn pre(&mut self, c: Call) {
        self.calls += 1;
        if self.in_feed {
            let marker = 0u8;
            let sp = &marker as *const u8 as usize;
            if sp < self.sp_min {
                self.sp_min = sp;
            }
            if sp > self.sp_max {
                self.sp_max = sp;
            }
        }
        if self.record {
            self.ev.push(Ev { call: c, post: None, via_parser: self.in_feed });
        }
    }
    #[inline(always)]
    fn post(&mut self) {
        if self.record && self.snaps {
            let s = snapshot_with(&self.scr, self.last.as_ref());
            self.last = Some(s.clone());
            if let Some(e) = self.ev.last_mut() {
                e.post = Some(s);
            }
        }
    }
    /// API-only operations
    pub fn resize(&mut self, lines: Option<u32>, columns: Option<u32>) {
        self.pre(Call::Resize(lines, columns));
        self.scr.resize(lines, columns);
        self.post();
    }
    pub fn apply(&mut self, c: &Call) {
        match c {
            Call::Resize(l, k) => self.resize(*l, *k),
            Call::Display => {
                let _ = ParserListener::display(self);
            }
            other => other.apply(self),
        }
    }
}

macro_rules! fwd {
    ($self:ident, $call:expr, $e:expr) => {{
        $self.pre($call);
        $e;
        $self.post();
    }};
}

impl ParserListener for Tap {
    fn alignment_display(&mut self) {
        fwd!(self, Call::AlignmentDisplay, self.scr.alignment_display())
    }
    fn define_charset(&mut self, code: &str, mode: &str) {
        fwd!(self, Call::DefineCharset(code.into(), mode.into()), self.scr.define_charset(code, mode))
    }
    fn reset(&mut self) {
        fwd!(self, Call::Reset, self.scr.reset())
    }
    fn index(&mut self) {
        fwd!(self, Call::Index, self.scr.index())
    }
    fn linefeed(&mut self) {
        fwd!(self, Call::Linefeed, self.scr.linefeed())
    }
    fn reverse_index(&mut self) {
        fwd!(self, Call::ReverseIndex, self.scr.reverse_index())
    }
    fn set_tab_stop(&mut self) {
        fwd!(self, Call::SetTabStop, self.scr.set_tab_stop())
    }
    fn save_cursor(&mut self) {
        fwd!(self, Call::SaveCursor, self.scr.save_cursor())
    }
    fn restore_cursor(&mut self) {
        fwd!(self, Call::RestoreCursor, self.scr.restore_cursor())
    }
    fn shift_out(&mut self) {
        fwd!(self, Call::ShiftOut, self.scr.shift_out())
    }
    fn shift_in(&mut self) {
        fwd!(self, Call::ShiftIn, self.scr.shift_in())
    }
    fn bell(&mut self) {
        fwd!(self, Call::Bell, self.scr.bell())
    }
    fn backspace(&mut self) {
        fwd!(self, Call::Backspace, self.scr.backspace())
    }
    fn tab(&mut self) {
        fwd!(self, Call::Tab, self.scr.tab())
    }
    fn cariage_return(&mut self) {
        fwd!(self, Call::CarriageReturn, self.scr.cariage_return())
    }
    fn draw(&mut self, input: &str) {
        fwd!(self, Call::Draw(input.into()), self.scr.draw(input))
    }
    fn insert_characters(&mut self, count: Option<u32>) {
        fwd!(self, Call::InsertCharacters(count), self.scr.insert_characters(count))
    }
    fn cursor_up(&mut self, count: Option<u32>) {
        fwd!(self, Call::CursorUp(count), self.scr.cursor_up(count))
    }
    fn cursor_down(&mut self, count: Option<u32>) {
        fwd!(self, Call::CursorDown(count), self.scr.cursor_down(count))
    }
    fn cursor_forward(&mut self, count: Option<u32>) {
        fwd!(self, Call::CursorForward(count), self.scr.cursor_forward(count))
    }
    fn cursor_back(&mut self, count: Option<u32>) {
        fwd!(self, Call::CursorBack(count), self.scr.cursor_back(count))
    }
    fn cursor_down1(&mut self, count: Option<u32>) {
        fwd!(self, Call::CursorDown1(count), self.scr.cursor_down1(count))
    }
    fn cursor_up1(&mut self, count: Option<u32>) {
        fwd!(self, Call::CursorUp1(count), self.scr.cursor_up1(count))
    }
    fn cursor_to_column(&mut self, character: Option<u32>) {
        fwd!(self, Call::CursorToColumn(character), self.scr.cursor_to_column(character))
    }
    fn cursor_position(&mut self, line: Option<u32>, character: Option<u32>) {
        fwd!(self, Call::CursorPosition(line, character), self.scr.cursor_position(line, character))
    }
    fn erase_in_display(&mut self, how: Option<u32>, private: Option<bool>) {
        fwd!(self, Call::EraseInDisplay(how), self.scr.erase_in_display(how, private))
    }
    fn erase_in_line(&mut self, how: Option<u32>, private: Option<bool>) {
        fwd!(self, Call::EraseInLine(how), self.scr.erase_in_line(how, private))
    }
    fn insert_lines(&mut self, count: Option<u32>) {
        fwd!(self, Call::InsertLines(count), self.scr.insert_lines(count))
    }
    fn delete_lines(&mut self, count: Option<u32>) {
        fwd!(self, Call::DeleteLines(count), self.scr.delete_lines(count))
    }
    fn delete_characters(&mut self, count: Option<u32>) {
        fwd!(self, Call::DeleteCharacters(count), self.scr.delete_characters(count))
    }
    fn erase_characters(&mut self, count: Option<u32>) {
        fwd!(self, Call::EraseCharacters(count), self.scr.erase_characters(count))
    }
    fn report_device_attributes(&mut self, mode: Option<u32>, private: Option<bool>) {
        fwd!(self, Call::ReportDeviceAttributes(mode), self.scr.report_device_attributes(mode, private))
    }
    fn cursor_to_line(&mut self, line: Option<u32>) {
        fwd!(self, Call::CursorToLine(line), self.scr.cursor_to_line(line))
    }
    fn clear_tab_stop(&mut self, how: Option<u32>) {
        fwd!(self, Call::ClearTabStop(how), self.scr.clear_tab_stop(how))
    }
    fn set_mode(&mut self, modes: &[u32], is_private: bool) {
        fwd!(self, Call::SetMode(modes.to_vec(), is_private), self.scr.set_mode(modes, is_private))
    }
    fn reset_mode(&mut self, modes: &[u32], is_private: bool) {
        fwd!(self, Call::ResetMode(modes.to_vec(), is_private), self.scr.reset_mode(modes, is_private))
    }
    fn select_graphic_rendition(&mut self, modes: &[u32]) {
        fwd!(self, Call::Sgr(modes.to_vec()), self.scr.select_graphic_rendition(modes))
    }
    fn set_title(&mut self, title: &str) {
        fwd!(self, Call::SetTitle(title.into()), self.scr.set_title(title))
    }
    fn set_icon_name(&mut self, icon_name: &str) {
        fwd!(self, Call::SetIconName(icon_name.into()), self.scr.set_icon_name(icon_name))
    }
    fn set_margins(&mut self, top: Option<u32>, bottom: Option<u32>) {
        fwd!(self, Call::SetMargins(top, bottom), self.scr.set_margins(top, bottom))
    }
    fn display(&mut self) -> Vec<String> {
        self.pre(Call::Display);
        let r = self.scr.display();
        self.post();
        r
    }
}

// ---------------------------------------------------------------------------------------------
// operation language
// ---------------------------------------------------------------------------------------------

#[derive(Clone, Debug, PartialEq, Eq, Serialize, Deserialize)]
pub enum Op {
    /// text handed to Parser::feed (or, for a byte parser, its UTF-8 bytes)
    Feed(String),
    /// bytes handed to ByteParser::feed
    FeedBytes(Vec<u8>),
    /// direct call on the Screen
    Api(Call),
    /// the embedder clears Screen.dirty
    ClearDirty,
    /// ByteParser::select_other_charset / Parser::set_use_utf8
    Charset(String),
}

#[derive(Clone, Copy, Debug, PartialEq, Eq, Serialize, Deserialize)]
pub enum PK {
    None,
    Chars,
    Bytes,
}

pub struct Sys {
    pub tap: Arc<Mutex<Tap>>,
    pub pk: PK,
    p: Option<Parser<'static, Tap>>,
    bp: Option<ByteParser<'static, Tap>>,
}

pub fn lock(t: &Arc<Mutex<Tap>>) -> MutexGuard<'_, Tap> {
    t.lock().unwrap_or_else(|e| e.into_inner())
}

impl Sys {
    pub fn new(columns: u32, lines: u32, pk: PK) -> Sys {
        Sys::from_screen(Screen::new(columns, lines), pk)
    }
    pub fn from_screen(scr: Screen, pk: PK) -> Sys {
        let tap = Arc::new(Mutex::new(Tap::new(scr)));
        let mut s = Sys { tap, pk: PK::None, p: None, bp: None };
        s.attach(pk);
        s
    }
    /// (re)attach a fresh parser in ground state
    pub fn attach(&mut self, pk: PK) {
        self.p = None;
        self.bp = None;
        self.pk = pk;
        match pk {
            PK::None => {}
            PK::Chars => self.p = Some(Parser::new(self.tap.clone())),
            PK::Bytes => self.bp = Some(ByteParser::new(self.tap.clone())),
        }
    }
    pub fn t(&self) -> MutexGuard<'_, Tap> {
        lock(&self.tap)
    }
    pub fn snap(&self) -> Snap {
        snapshot(&self.t().scr)
    }
    pub fn fork_screen(&self) -> Screen {
        self.t().scr.clone()
    }
    pub fn set_recording(&self, record: bool, snaps: bool) {
        let mut t = self.t();
        t.record = record;
        t.snaps = snaps;
    }
    pub fn take_events(&self) -> Vec<Ev> {
        std::mem::take(&mut self.t().ev)
    }
    fn feed_str(&mut self, s: &str) {
        lock(&self.tap).in_feed = true;
        if let Some(p) = self.p.as_mut() {
            p.feed(s.to_string());
        } else if let Some(bp) = self.bp.as_mut() {
            bp.feed(s.as_bytes());
        }
        lock(&self.tap).in_feed = false;
    }
    fn feed_bytes(&mut self, b: &[u8]) {
        lock(&self.tap).in_feed = true;
        if let Some(bp) = self.bp.as_mut() {
            bp.feed(b);
        } else if let Some(p) = self.p.as_mut() {
            p.feed(String::from_utf8_lossy(b).into_owned());
        }
        lock(&self.tap).in_feed = false;
    }
    /// Execute one operation. Panics propagate (wrap in `catch`).
    pub fn apply(&mut self, op: &Op) {
        match op {
            Op::Feed(s) => self.feed_str(s),
            Op::FeedBytes(b) => self.feed_bytes(b),
            Op::Api(c) => {
                let mut t = lock(&self.tap);
                t.in_feed = false;
                t.apply(c)
            }
            Op::ClearDirty => lock(&self.tap).scr.dirty.clear(),
            Op::Charset(code) => {
                if let Some(bp) = self.bp.as_mut() {
                    bp.select_other_charset(code);
                } else if let Some(p) = self.p.as_mut() {
                    match code.as_str() {
                        "@" => p.set_use_utf8(false),
                        "G" | "8" => p.set_use_utf8(true),
                        _ => {}
                    }
                }
            }
        }
    }
    /// Execute an operation, catching a panic.
    pub fn try_apply(&mut self, op: &Op) -> Result<(), PanicInfo> {
        let r = catch(|| self.apply(op));
        if r.is_err() {
            lock(&self.tap).in_feed = false;
        }
        r
    }
}

/// run a list of ops; Err((index, panic)) on the first panic
pub fn run_ops(sys: &mut Sys, ops: &[Op]) -> Result<(), (usize, PanicInfo)> {
    for (i, op) in ops.iter().enumerate() {
        sys.try_apply(op).map_err(|p| (i, p))?;
    }
    Ok(())
}

/// A recording-only system (no Screen): Parser/ByteParser attached to `Rec`.
pub struct RecSys {
    pub rec: Arc<Mutex<crate::call::Rec>>,
    p: Option<Parser<'static, crate::call::Rec>>,
    bp: Option<ByteParser<'static, crate::call::Rec>>,
}

impl RecSys {
    pub fn new(pk: PK) -> RecSys {
        let rec = Arc::new(Mutex::new(crate::call::Rec::new()));
        let (p, bp) = match pk {
            PK::Bytes => (None, Some(ByteParser::new(rec.clone()))),
            _ => (Some(Parser::new(rec.clone())), None),
        };
        RecSys { rec, p, bp }
    }
    pub fn feed(&mut self, s: &str) {
        if let Some(p) = self.p.as_mut() {
            p.feed(s.to_string())
        } else if let Some(bp) = self.bp.as_mut() {
            bp.feed(s.as_bytes())
        }
    }
    pub fn feed_bytes(&mut self, b: &[u8]) {
        if let Some(bp) = self.bp.as_mut() {
            bp.feed(b)
        }
    }
    pub fn set_utf8(&mut self, on: bool) {
        if let Some(p) = self.p.as_mut() {
            p.set_use_utf8(on)
        } else if let Some(bp) = self.bp.as_mut() {
            bp.select_other_charset(if on { "G" } else { "@" })
        }
    }
    pub fn charset(&mut self, code: &str) {
        if let Some(bp) = self.bp.as_mut() {
            bp.select_other_charset(code)
        } else if let Some(p) = self.p.as_mut() {
            match code {
                "@" => p.set_use_utf8(false),
                "G" | "8" => p.set_use_utf8(true),
                _ => {}
            }
        }
    }
    pub fn events(&self) -> Vec<Call> {
        self.rec.lock().unwrap_or_else(|e| e.into_inner()).ev.clone()
    }
}

// ---------------------------------------------------------------------------------------------
// coroutine stack high-water mark (C01 evidence)
// ---------------------------------------------------------------------------------------------

/// the read-write mapping (from /proc/self/maps) that contains `addr`, if it looks like the
/// parser coroutine's stack (a small anonymous mapping, not the main thread's stack)
pub fn small_rw_mapping_of(addr: usize) -> Option<(usize, usize)> {
    let maps = std::fs::read_to_string("/proc/self/maps").ok()?;
    for line in maps.lines() {
        let mut it = line.split_whitespace();
        let range = it.next()?;
        let perms = it.next().unwrap_or("");
        let mut r = range.split('-');
        let lo = usize::from_str_radix(r.next()?, 16).ok()?;
        let hi = usize::from_str_radix(r.next()?, 16).ok()?;
        if lo <= addr && addr < hi {
            if perms.starts_with("rw") && hi - lo <= 256 * 1024 && !line.contains("[stack]") && !line.contains("[heap]") {
                return Some((lo, hi));
            }
            return None;
        }
    }
    None
}

const PAINT: u8 = 0xA5;

/// Paint the dead part of the coroutine stack (below `below`, leaving generator-rs' own words at
/// the very bottom alone).  Safe only while the coroutine is suspended at a shallower depth than
/// `below` - which holds for an address sampled inside a listener call.
pub fn paint_stack(lo: usize, below: usize) {
    let from = lo + 128;
    if below <= from + 256 {
        return;
    }
    let to = below - 256;
    unsafe {
        std::ptr::write_bytes(from as *mut u8, PAINT, to - from);
    }
}

/// bytes of the mapping [lo, hi) that have been touched since `paint_stack` (measured from the top)
pub fn stack_high_water(lo: usize, hi: usize) -> usize {
    let from = lo + 128;
    let mut a = from;
    unsafe {
        while a < hi && std::ptr::read_volatile(a as *const u8) == PAINT {
            a += 1;
        }
    }
    hi - a
}
