//! Model-free pair monitors: C10 (display() faithful and side-effect free) and C15 (RIS returns
//! the terminal to its power-on state).

use serde_json::json;
use unicode_width::UnicodeWidthChar;

use crate::call::Call;
use crate::checks::histories::mixed_history;
use crate::checks::{Check, COMMON_ASSUMPTIONS};
use crate::core::{Case, Ctx, Tier, Viol};
use crate::engine::wellformed;
use crate::gen;
use crate::rng::Rng;
use crate::snapshot::{snapshot, Snap};
use crate::sys::{catch, panic_sig, Op, Sys, PK};

fn assumptions() -> Vec<String> {
    COMMON_ASSUMPTIONS.iter().map(|s| s.to_string()).collect()
}

// =============================================================================================
// C10
// =============================================================================================

pub struct C10Check;
pub static C10: C10Check = C10Check;

/// acceptable renderings of a row recomputed from the snapshot
fn render_ok(row: &[crate::snapshot::Cell], got: &str) -> bool {
    // alternatives arise only where a non-placeholder cell follows a double-width lead
    let mut alts: Vec<String> = vec![String::new()];
    let mut x = 0;
    while x < row.len() {
        let t = &row[x].text;
        for a in alts.iter_mut() {
            a.push_str(t);
        }
        let wide = t.chars().next().and_then(|c| c.width()).map(|w| w == 2).unwrap_or(false);
        if wide && x + 1 < row.len() {
            let next = &row[x + 1].text;
            if next.is_empty() {
                x += 2;
                continue;
            }
            // not a placeholder: "skipped" and "rendered" both accepted
            let mut more = Vec::new();
            for a in alts.iter() {
                let mut b = a.clone();
                b.push_str(next);
                more.push(b);
            }
            // the rendered alternative continues after x+1 as well; handle by recursion-free trick:
            // treat the rendered cell as consumed (its own width effects are ignored)
            alts.extend(more);
            alts.truncate(64);
            x += 2;
            continue;
        }
        x += 1;
    }
    alts.iter().any(|a| crate::snapshot::nfc(a) == crate::snapshot::nfc(got))
}

fn c10_faithful(cx: &mut Ctx, sys: &Sys, mk: &dyn Fn() -> Case) {
    let mut fork = sys.fork_screen();
    let snap = snapshot(&fork);
    if !wellformed(&snap).is_empty() {
        return;
    }
    let r = catch(|| memterm::parser_listener::ParserListener::display(&mut fork));
    cx.stats.clause("render-compared");
    let has_wide = snap.grid.iter().any(|r| r.iter().any(|c| c.text.is_empty()));
    let orphan = snap.grid.iter().any(|r| {
        r.iter().enumerate().any(|(x, c)| c.text.is_empty() && (x == 0 || !r[x - 1].text.chars().next().and_then(|ch| ch.width()).map(|w| w == 2).unwrap_or(false)))
    });
    if orphan {
        cx.stats.feature("orphaned-placeholder");
    }
    if has_wide {
        cx.stats.feature("wide-char");
    }
    if snap.grid.iter().any(|r| r.last().map(|c| c.text.chars().next().and_then(|ch| ch.width()) == Some(2)).unwrap_or(false)) {
        cx.stats.feature("wide-in-last-column");
    }
    let key = format!("render|wide={}|orphan={}|{}x{}", has_wide, orphan, snap.columns.min(12), snap.lines.min(8));
    cx.stats.eval(&key, true);
    match r {
        Err(p) => {
            cx.violation(Viol {
                prop: "C10".into(),
                clause: "render-panic".into(),
                op: "display".into(),
                bucket: panic_sig(&p),
                detail: format!("display() panicked: {} at {} on\n{}", p.msg, p.loc, snap.render()),
                case: mk(),
            });
        }
        Ok(rows) => {
            if rows.len() != snap.lines as usize {
                cx.violation(Viol { prop: "C10".into(), clause: "render".into(), op: "display".into(), bucket: "len".into(), detail: format!("{} rows for {} lines", rows.len(), snap.lines), case: mk() });
                return;
            }
            for (y, got) in rows.iter().enumerate() {
                if !render_ok(&snap.grid[y], got) {
                    cx.violation(Viol {
                        prop: "C10".into(),
                        clause: "render".into(),
                        op: "display".into(),
                        bucket: format!("wide={}|orphan={}", has_wide, orphan),
                        detail: format!("row {}: display() gave {:?}, cells are {:?}", y, got, snap.grid[y].iter().map(|c| c.text.clone()).collect::<Vec<_>>()),
                        case: mk(),
                    });
                    break;
                }
            }
            // a second display() right away must give the same rows (the first one materialised
            // every cell: representation must not matter)
            let again = catch(|| memterm::parser_listener::ParserListener::display(&mut fork));
            cx.stats.clause("display-twice");
            match again {
                Ok(r2) if r2 == rows => {}
                Ok(r2) => {
                    cx.violation(Viol {
                        prop: "C10".into(),
                        clause: "impure".into(),
                        op: "display".into(),
                        bucket: "display-twice".into(),
                        detail: format!("two consecutive display() calls differ: {:?} then {:?}", rows, r2),
                        case: mk(),
                    });
                }
                Err(p) => {
                    cx.violation(Viol { prop: "C10".into(), clause: "render-panic".into(), op: "display".into(), bucket: panic_sig(&p), detail: format!("second display() panicked: {} at {}", p.msg, p.loc), case: mk() });
                }
            }
            // display() must not have changed the state of the fork either
            let after = snapshot(&fork);
            if after != snap {
                cx.violation(Viol {
                    prop: "C10".into(),
                    clause: "impure".into(),
                    op: "display".into(),
                    bucket: "self".into(),
                    detail: format!("display() changed the observable state: {:?}", snap.diff(&after, true)),
                    case: mk(),
                });
            }
        }
    }
}

/// run `ops`, calling display() before op k for every k in `at` (sorted); returns the
/// snapshots after every op and the final display
fn c10_exec(c: u32, l: u32, ops: &[Op], at: &[usize]) -> Result<(Vec<Snap>, Vec<String>), (usize, crate::sys::PanicInfo)> {
    let mut sys = Sys::new(c, l, PK::Chars);
    sys.set_recording(false, false);
    let mut snaps = Vec::with_capacity(ops.len());
    let mut last: Option<Snap> = None;
    for (i, op) in ops.iter().enumerate() {
        if at.contains(&i) {
            sys.try_apply(&Op::Api(Call::Display)).map_err(|p| (i, p))?;
        }
        sys.try_apply(op).map_err(|p| (i, p))?;
        let s = crate::snapshot::snapshot_with(&sys.t().scr, last.as_ref());
        last = Some(s.clone());
        snaps.push(s);
    }
    let mut fork = sys.fork_screen();
    let d = catch(|| memterm::parser_listener::ParserListener::display(&mut fork)).map_err(|p| (ops.len(), p))?;
    Ok((snaps, d))
}

fn c10_pair(cx: &mut Ctx, c: u32, l: u32, ops: &[Op], at: &[usize], base: &Result<(Vec<Snap>, Vec<String>), (usize, crate::sys::PanicInfo)>, kind: &str) {
    let mk = || {
        let mut case = Case::new("C10", "pure", c, l, PK::Chars);
        case.ops = ops.to_vec();
        case.aux = json!({ "display_before": at });
        case
    };
    let with = c10_exec(c, l, ops, at);
    cx.stats.clause("pair-compared");
    let key = format!("pure|{}|n{}|{}x{}", kind, at.len().min(4), c.min(12), l.min(8));
    match (base, &with) {
        (Ok((a, da)), Ok((b, db))) => {
            let mut diverged = None;
            for i in 0..a.len() {
                if a[i] != b[i] {
                    diverged = Some(i);
                    break;
                }
            }
            cx.stats.eval(&key, true);
            if let Some(i) = diverged {
                let opk = match &ops[i] {
                    Op::Api(call) => call.kind().to_string(),
                    Op::Feed(_) | Op::FeedBytes(_) => "feed".into(),
                    _ => "other".into(),
                };
                cx.violation(Viol {
                    prop: "C10".into(),
                    clause: "impure".into(),
                    op: opk,
                    bucket: "state".into(),
                    detail: format!(
                        "history of {} ops, display() interposed before ops {:?}: states differ after op {} ({:?}): {:?}\nwithout display:\n{}with display:\n{}",
                        ops.len(),
                        at,
                        i,
                        ops[i],
                        a[i].diff(&b[i], true),
                        a[i].render(),
                        b[i].render()
                    ),
                    case: mk(),
                });
            } else if da != db {
                cx.violation(Viol { prop: "C10".into(), clause: "impure".into(), op: "display".into(), bucket: "final-display".into(), detail: format!("final display differs: {:?} vs {:?}", da, db), case: mk() });
            }
        }
        (Err(_), Err(_)) => cx.stats.count("skipped_pairs_both_panic", 1),
        (Ok(_), Err((i, p))) | (Err((i, p)), Ok(_)) => {
            cx.stats.eval(&key, true);
            cx.violation(Viol {
                prop: "C10".into(),
                clause: "impure-panic".into(),
                op: "display".into(),
                bucket: panic_sig(p),
                detail: format!("display() interposed before ops {:?}: exactly one of the two runs panicked at op {}: {} at {}", at, i, p.msg, p.loc),
                case: mk(),
            });
        }
    }
}

/// histories weighted towards the operations that treat absent and present cells differently
fn c10_history(rng: &mut Rng, c: u32, l: u32, n: usize) -> Vec<Op> {
    use Call::*;
    let mut ops: Vec<Op> = Vec::new();
    for _ in 0..n {
        let op = match rng.below(100) {
            0..=24 => {
                let k = 1 + rng.usize(3);
                Op::Feed(gen::session(rng, c, l, k))
            }
            25..=34 => Op::Api(Draw(gen::text_run(rng, 6))),
            35..=37 => Op::Api(Draw(rng.pick(&gen::COMBINING).to_string())),
            38 => Op::Api(Draw(format!("{}{}", rng.pick(&gen::WIDE), rng.pick(&gen::COMBINING)))),
            39 => {
                // overwrite the right half of a double-width character
                ops.push(Op::Api(Draw(rng.pick(&gen::WIDE).to_string())));
                ops.push(Op::Api(CursorBack(Some(1))));
                Op::Api(Draw("b".into()))
            }
            40..=44 => Op::Api(InsertLines(gen::param(rng, l))),
            45..=49 => Op::Api(DeleteLines(gen::param(rng, l))),
            50..=54 => Op::Api(InsertCharacters(gen::param(rng, c))),
            55..=59 => Op::Api(DeleteCharacters(gen::param(rng, c))),
            60..=62 => Op::Api(AlignmentDisplay),
            63..=66 => Op::Api(if rng.bool() { SetMode(vec![5], true) } else { ResetMode(vec![5], true) }),
            67..=71 => Op::Api(EraseCharacters(gen::param(rng, c))),
            72..=74 => Op::Api(EraseInLine(Some(rng.range(0, 2)))),
            75..=77 => Op::Api(EraseInDisplay(Some(rng.range(0, 2)))),
            78..=82 => Op::Api(Resize(Some(rng.range(1, l + 2)), Some(rng.range(1, c + 2)))),
            83..=88 => Op::Api(CursorPosition(gen::param(rng, l), gen::param(rng, c))),
            89..=91 => Op::Api(Index),
            92..=94 => Op::Api(ReverseIndex),
            95 => Op::Api(SetMode(vec![4], false)),
            96 => {
                // a combining mark at column 0: its target is the last cell of the row above,
                // which may never have been written (or was vacated by DL)
                let y = rng.range(1, l.max(2));
                if rng.bool() {
                    ops.push(Op::Api(CursorPosition(Some(y.saturating_sub(1).max(1)), Some(1))));
                    ops.push(Op::Api(DeleteLines(Some(1))));
                }
                ops.push(Op::Api(CursorPosition(Some(y), Some(1))));
                Op::Api(Draw(format!("{}{}", rng.pick(&gen::COMBINING), if rng.bool() { "q" } else { "" })))
            }
            97 => Op::ClearDirty,
            _ => Op::Api(gen::api_call(rng, c, l)),
        };
        // display() positions are chosen by the monitor, not by the history
        if matches!(op, Op::Api(Display)) {
            continue;
        }
        ops.push(op);
    }
    ops
}

fn strip_display(ops: Vec<Op>) -> Vec<Op> {
    ops.into_iter().filter(|o| !matches!(o, Op::Api(Call::Display))).collect()
}

fn c10_history_case(cx: &mut Ctx, c: u32, l: u32, ops: &[Op], rng: &mut Rng, kind: &str) {
    let base = c10_exec(c, l, ops, &[]);
    let n = ops.len();
    if n <= 30 {
        for k in 0..n {
            c10_pair(cx, c, l, ops, &[k], &base, "single");
        }
    } else {
        for _ in 0..8 {
            let k = rng.usize(n);
            c10_pair(cx, c, l, ops, &[k], &base, "single");
        }
    }
    let all: Vec<usize> = (0..n).collect();
    c10_pair(cx, c, l, ops, &all, &base, "every");
    for _ in 0..4 {
        let mut at: Vec<usize> = (0..n).filter(|_| rng.below(4) == 0).collect();
        at.dedup();
        c10_pair(cx, c, l, ops, &at, &base, kind);
    }
    // faithfulness along the history
    let mut sys = Sys::new(c, l, PK::Chars);
    sys.set_recording(false, false);
    for (i, op) in ops.iter().enumerate() {
        if sys.try_apply(op).is_err() {
            break;
        }
        if i % 3 == 2 || i + 1 == n {
            let upto = i;
            let mk = || {
                let mut case = Case::new("C10", "faithful", c, l, PK::Chars);
                case.ops = ops[..=upto].to_vec();
                case
            };
            c10_faithful(cx, &sys, &mk);
        }
    }
}

impl Check for C10Check {
    fn id(&self) -> &'static str {
        "C10"
    }
    fn rule(&self) -> String {
        "(A, faithful) display() on a fork vs the rendering recomputed from the cell snapshot (cell texts concatenated, the placeholder after a double-width lead skipped, never-written cells blank), and the fork's state unchanged by it; (B, pure) model-free pair monitor: the same history run with and without display() interposed (before each single op k for histories <= 30 ops, before every op, before random subsets) - the full snapshots after every op and the final display() must be equal. Histories are weighted towards IL/DL/ICH/DCH/combining marks/DECALN/DECSCNM/erase/resize. distinct = (workload, number of interposed calls class, geometry) resp. (wide content, orphaned placeholder, geometry)".into()
    }
    fn assumptions(&self) -> Vec<String> {
        assumptions()
    }
    fn required(&self, _t: Tier) -> Vec<&'static str> {
        vec!["pair-compared", "render-compared", "wide-char", "orphaned-placeholder"]
    }
    fn shard(&self, cx: &mut Ctx) {
        // witness from the property text: a deleted line's text must be gone with or without display()
        if cx.shard == 0 && cx.begin_group("witness") {
            let ops = vec![Op::Feed("Z\r".into()), Op::Api(Call::DeleteLines(None)), Op::Feed("\x1b[2;1Hab\u{0308}".into()), Op::Api(Call::InsertCharacters(Some(1)))];
            let mut rng = Rng::new(7);
            c10_history_case(cx, 4, 3, &ops, &mut rng, "witness");
            // overwriting the lead of a double-width character leaves an orphaned placeholder
            let ops = vec![Op::Feed("コ\rx".into()), Op::Feed("\x1b[2;2H日\x08y".into())];
            c10_history_case(cx, 4, 3, &ops, &mut rng, "witness");
        }
        // a double-width lead whose right-hand neighbour is no longer its placeholder (removed by
        // DCH / ECH / ICH, or never there because the lead stood in the last column before a
        // widening), then overwritten / extended in several ways: display() interposed everywhere
        if cx.begin_group("wide lead without placeholder") {
            let mut k = 0u64;
            for c in [5u32, 8] {
                for pre in [0usize, 2] {
                    for place in [1u32, 3, c - 1] {
                        for brk in 0..4 {
                            for follow in 0..4 {
                                k += 1;
                                if !cx.mine(k) {
                                    continue;
                                }
                                let mut ops: Vec<Op> = Vec::new();
                                if pre > 0 {
                                    ops.push(Op::Api(Call::CursorPosition(Some(2), Some(1))));
                                    ops.push(Op::Api(Call::Draw("ab".into())));
                                }
                                ops.push(Op::Api(Call::CursorPosition(Some(1), Some(place))));
                                ops.push(Op::Api(Call::Draw("\u{4e16}".into())));
                                ops.push(Op::Api(Call::Draw("pq".into())));
                                ops.push(Op::Api(Call::CursorPosition(Some(1), Some(place + 1))));
                                ops.push(Op::Api(match brk {
                                    0 => Call::DeleteCharacters(Some(1)),
                                    1 => Call::EraseCharacters(Some(1)),
                                    2 => Call::InsertCharacters(Some(1)),
                                    _ => Call::Resize(None, Some(c + 2)),
                                }));
                                match follow {
                                    0 => {}
                                    1 => {
                                        ops.push(Op::Api(Call::CursorPosition(Some(1), Some(place))));
                                        ops.push(Op::Api(Call::Draw("x".into())));
                                    }
                                    2 => {
                                        ops.push(Op::Api(Call::CursorPosition(Some(1), Some(place + 2))));
                                        ops.push(Op::Api(Call::Draw("yz".into())));
                                    }
                                    _ => {
                                        ops.push(Op::Api(Call::CursorPosition(Some(1), Some(place))));
                                        ops.push(Op::Api(Call::EraseInLine(Some(1))));
                                        ops.push(Op::Api(Call::Draw("\u{0301}".into())));
                                    }
                                }
                                let mut rng = Rng::new(k);
                                c10_history_case(cx, c, 3, &ops, &mut rng, "wide-lead");
                            }
                        }
                    }
                }
            }
            // the lead alone in the LAST column (drawn there with autowrap off, so it never had a
            // placeholder), then pulled left by a DCH or given a never-written neighbour by a
            // widening, then something written further right
            for c in [5u32, 8] {
                for brk in 0..3 {
                    for follow in 0..3 {
                        k += 1;
                        if !cx.mine(k) {
                            continue;
                        }
                        let mut ops: Vec<Op> = vec![
                            Op::Api(Call::Draw("ab".into())),
                            Op::Api(Call::ResetMode(vec![7], true)),
                            Op::Api(Call::CursorPosition(Some(1), Some(c))),
                            Op::Api(Call::Draw("\u{4e16}".into())),
                            Op::Api(Call::SetMode(vec![7], true)),
                        ];
                        match brk {
                            0 => {
                                ops.push(Op::Api(Call::CursorPosition(Some(1), Some(1))));
                                ops.push(Op::Api(Call::DeleteCharacters(Some(1))));
                            }
                            1 => ops.push(Op::Api(Call::Resize(None, Some(c + 3)))),
                            _ => {
                                ops.push(Op::Api(Call::CursorPosition(Some(1), Some(2))));
                                ops.push(Op::Api(Call::DeleteCharacters(Some(2))));
                                ops.push(Op::Api(Call::Resize(None, Some(c + 2))));
                            }
                        }
                        match follow {
                            0 => {}
                            1 => {
                                ops.push(Op::Api(Call::CursorPosition(Some(1), Some(c + 2))));
                                ops.push(Op::Api(Call::Draw("z".into())));
                            }
                            _ => {
                                ops.push(Op::Api(Call::CursorPosition(Some(1), Some(c))));
                                ops.push(Op::Api(Call::Draw("yz".into())));
                            }
                        }
                        let mut rng = Rng::new(k);
                        c10_history_case(cx, c, 3, &ops, &mut rng, "wide-lead");
                    }
                }
            }
            cx.stats.exhaustive_parts.insert("192 histories 'double-width lead, its right-hand neighbour removed / never there (DCH, ECH, ICH, widening), then overwritten / extended / erased' with display() interposed before every single operation, before all, and checked for faithfulness along the way".into());
        }
        // every Unicode scalar value in a cell, rendered (a) followed by text, (b) with the cell to
        // its right overwritten afterwards (what is left of a double-width character then), (c)
        // appended to a narrow and to a wide base
        if cx.begin_group("unicode sweep") {
            let mut complete = true;
            for cp in 0..=0x10ffffu32 {
                if !cx.mine(cp as u64) {
                    continue;
                }
                let ch = match char::from_u32(cp) {
                    Some(c) => c,
                    None => continue,
                };
                if cp % 4096 == 0 && (cx.used() > 0.5 || cx.out_of_time()) {
                    complete = false;
                    break;
                }
                let hist: Vec<Op> = match cp % 3 {
                    0 => vec![Op::Api(Call::Draw(format!("{}xy", ch)))],
                    1 => vec![Op::Api(Call::Draw(ch.to_string())), Op::Api(Call::CursorPosition(Some(1), Some(2))), Op::Api(Call::Draw("x".into()))],
                    _ => vec![Op::Api(Call::Draw(format!("a{}{}{}", ch, '\u{65e5}', ch)))],
                };
                let mut sys = Sys::new(5, 2, PK::None);
                sys.set_recording(false, false);
                let mut ok = true;
                for op in &hist {
                    ok &= sys.try_apply(op).is_ok();
                }
                if ok {
                    let mk = || {
                        let mut case = Case::new("C10", "faithful", 5, 2, PK::None);
                        case.ops = hist.clone();
                        case
                    };
                    c10_faithful(cx, &sys, &mk);
                }
            }
            if complete {
                cx.stats.count("unicode_sweeps_completed", 1);
                cx.stats.exhaustive_parts.insert("every Unicode scalar value (1 112 064) rendered by display() - followed by text, with its right-hand neighbour overwritten, or appended to a narrow and a wide base (by code point mod 3) - on a 5x2 screen".into());
            }
        }
        while !cx.out_of_time() {
            let (c, l) = gen::pick_geom(&mut cx.rng, cx.tier);
            let mut rng = cx.rng.fork(9);
            if !cx.begin_group(&format!("hist {}x{}", c, l)) {
                if cx.past_only_group() {
                    break;
                }
                continue;
            }
            cx.stats.geoms.insert(format!("{}x{}", c, l));
            let big = c * l > 400;
            let n = 2 + rng.usize(if big { 10 } else { 40 });
            let ops = if rng.below(4) == 0 { strip_display(mixed_history(&mut rng, c, l, n, true)) } else { c10_history(&mut rng, c, l, n) };
            if ops.is_empty() {
                continue;
            }
            c10_history_case(cx, c, l, &ops, &mut rng, "random");
        }
    }
    fn replay(&self, case: &Case, cx: &mut Ctx) {
        if case.kind == "faithful" {
            let mut sys = Sys::new(case.columns, case.lines, case.pk);
            sys.set_recording(false, false);
            for op in &case.ops {
                if sys.try_apply(op).is_err() {
                    return;
                }
            }
            let c2 = case.clone();
            c10_faithful(cx, &sys, &move || c2.clone());
        } else {
            let at: Vec<usize> = case.aux["display_before"].as_array().map(|a| a.iter().filter_map(|x| x.as_u64().map(|v| v as usize)).collect()).unwrap_or_default();
            let base = c10_exec(case.columns, case.lines, &case.ops, &[]);
            c10_pair(cx, case.columns, case.lines, &case.ops, &at, &base, "replay");
        }
    }
}

// =============================================================================================
// C15
// =============================================================================================

pub struct C15Check;
pub static C15: C15Check = C15Check;

fn no_restore(ops: Vec<Op>) -> Vec<Op> {
    ops.into_iter()
        .filter_map(|o| match o {
            Op::Api(Call::RestoreCursor) => None,
            Op::Feed(s) => {
                // (a trailing ESC could pair with an `8` at the start of the next chunk)
                let mut s = s.replace("\x1b8", "\x1b7");
                while s.ends_with('\x1b') {
                    s.pop();
                }
                Some(Op::Feed(s))
            }
            Op::FeedBytes(b) => {
                // bytes could spell ESC 8 as well: neutralise
                let mut v = b.clone();
                for i in 1..v.len() {
                    if v[i - 1] == 0x1b && v[i] == b'8' {
                        v[i] = b'7';
                    }
                }
                while v.last() == Some(&0x1b) {
                    v.pop();
                }
                Some(Op::FeedBytes(v))
            }
            other => Some(other),
        })
        .collect()
}

fn perturbed(s: &Snap, cx: &mut Ctx) {
    let f = crate::refsem::fresh(s.columns, s.lines);
    let st = &mut cx.stats;
    if s.grid != f.grid {
        st.feature("perturbed-grid");
    }
    if (s.cx, s.cy) != (0, 0) {
        st.feature("perturbed-cursor");
    }
    if s.cattr != f.cattr {
        st.feature("perturbed-rendition");
    }
    if s.modes != f.modes {
        st.feature("perturbed-modes");
    }
    if s.margins.is_some() {
        st.feature("perturbed-margins");
    }
    if s.tabstops != f.tabstops {
        st.feature("perturbed-tabstops");
    }
    if (s.g1_active, s.g0, s.g1) != (f.g1_active, f.g0, f.g1) {
        st.feature("perturbed-charsets");
    }
    if !s.title.is_empty() || !s.icon.is_empty() {
        st.feature("perturbed-title");
    }
    if s.hidden {
        st.feature("perturbed-hidden");
    }
    if s.saved_columns.is_some() {
        st.feature("perturbed-saved-columns");
    }
    if !s.saved.is_empty() {
        st.feature("nonempty-saved-stack");
    }
}

/// `keep`: the history, the RIS and the continuation all go through ONE `Parser` (character
/// input), so that anything the recogniser remembers across the reset shows too. Only used when
/// the history provably ends in the recogniser's ground state; `Parser` has no input-settable
/// mode (ESC % is inert for it), so a new parser is an exact stand-in on the fresh side.
fn c15_run(cx: &mut Ctx, c: u32, l: u32, h: &[Op], via_esc: bool, t: &[Op], keep: bool) {
    let pk = if keep { PK::Chars } else { PK::Bytes };
    let mk = || {
        let mut case = Case::new("C15", "ris", c, l, pk);
        case.setup = h.to_vec();
        case.ops = t.to_vec();
        case.aux = json!({ "via_esc": via_esc, "keep": keep });
        case
    };
    let mut a = Sys::new(c, l, pk);
    a.set_recording(false, false);
    if crate::sys::run_ops(&mut a, h).is_err() {
        cx.stats.count("setup_aborted", 1);
        return;
    }
    let before = a.snap();
    if !wellformed(&before).is_empty() {
        cx.stats.count("setup_illformed", 1);
        return;
    }
    perturbed(&before, cx);
    // a fresh parser in ground state delivers the RIS (h may have ended inside a sequence)
    if !keep {
        a.attach(PK::Bytes);
    } else {
        cx.stats.feature("same-parser-across-RIS");
    }
    let ris = if via_esc { Op::Feed("\x1bc".into()) } else { Op::Api(Call::Reset) };
    if let Err(p) = a.try_apply(&ris) {
        cx.violation(Viol { prop: "C15".into(), clause: "panic".into(), op: "reset".into(), bucket: panic_sig(&p), detail: format!("RIS panicked: {} at {}", p.msg, p.loc), case: mk() });
        return;
    }
    let after = a.snap();
    let depth = after.saved.len();
    let mut b = Sys::new(after.columns, after.lines, pk);
    b.set_recording(false, false);
    let fresh = b.snap();
    // both parsers must have seen the same stream prefix (BOM handling is per stream): the
    // fresh side gets the RIS as well - a no-op on a new screen
    let _ = b.try_apply(&ris);
    cx.stats.clause("fresh-compared");
    let key = format!("ris|esc={}|{}x{}|saved={}", via_esc, c.min(20), l.min(10), depth.min(2));
    cx.stats.eval(&key, !before.eq_nodirty(&fresh));
    cx.stats.sample(&key, 8, || json!({"history_ops": h.len(), "state_before_RIS": before.render(), "continuation_ops": t.len()}));
    let cmp = |x: &Snap, y: &Snap| -> Vec<String> {
        // everything but the saved-cursor stack (y = fresh side has `depth` fewer entries)
        let mut xs = x.clone();
        let ys = y.clone();
        if xs.saved.len() >= depth {
            xs.saved = xs.saved[depth..].to_vec();
        }
        // the remembered DECCOLM width is not part of the statement's state list: a stale value
        // is a violation only where it becomes visible (a later `CSI ?3l`), which the
        // continuation exercises
        xs.diff(&ys, true).into_iter().filter(|d| d != "saved_columns").collect()
    };
    if before.saved != after.saved[..] {
        cx.violation(Viol { prop: "C15".into(), clause: "saved-stack".into(), op: "reset".into(), bucket: "-".into(), detail: "RIS changed the saved-cursor stack".into(), case: mk() });
    }
    let d = cmp(&after, &fresh);
    if !d.is_empty() {
        cx.violation(Viol {
            prop: "C15".into(),
            clause: "not-fresh".into(),
            op: "reset".into(),
            bucket: d[0].split_whitespace().next().unwrap_or("").split('(').next().unwrap_or("").to_string(),
            detail: format!("after RIS the state differs from Screen::new({}, {}): {:?}\nstate before RIS:\n{}", after.columns, after.lines, d, before.render()),
            case: mk(),
        });
        return;
    }
    // continuation: same input, same state - compared after every op
    for (i, op) in t.iter().enumerate() {
        let ra = a.try_apply(op);
        let rb = b.try_apply(op);
        cx.stats.clause("continuation-step");
        match (ra, rb) {
            (Ok(()), Ok(())) => {
                let (sa, sb) = (a.snap(), b.snap());
                let d = cmp(&sa, &sb);
                if !d.is_empty() {
                    cx.violation(Viol {
                        prop: "C15".into(),
                        clause: "continuation-diff".into(),
                        op: match op {
                            Op::Api(call) => call.kind().to_string(),
                            _ => "feed".into(),
                        },
                        bucket: d[0].split_whitespace().next().unwrap_or("").split('(').next().unwrap_or("").to_string(),
                        detail: format!("after RIS + {} continuation ops ({:?}) the state differs from a new screen given the same input: {:?}", i + 1, op, d),
                        case: mk(),
                    });
                    return;
                }
            }
            (Err(_), Err(_)) => return,
            (Err(p), Ok(())) | (Ok(()), Err(p)) => {
                cx.violation(Viol { prop: "C15".into(), clause: "continuation-diff".into(), op: "panic".into(), bucket: panic_sig(&p), detail: format!("only one side panicked at continuation op {}: {} at {}", i, p.msg, p.loc), case: mk() });
                return;
            }
        }
    }
}

impl Check for C15Check {
    fn id(&self) -> &'static str {
        "C15"
    }
    fn rule(&self) -> String {
        "model-free: snapshot(h . RIS) minus the saved-cursor stack must equal snapshot(Screen::new(columns_now, lines_now)) incl. dirty = all rows, the stack itself must be untouched, and for a continuation t without DECRC the snapshots of (h . RIS . t) and (new . t) must be equal after every op of t. h comes from the mixed-history generator (byte input, API calls, resizes, DECCOLM) so that every Screen component is perturbed before RIS (per-component counts in state_features); RIS via `ESC c` and via reset(); in a third of the cases history, RIS and continuation go through one and the same Parser (character input, history ending in the ground state) so that recogniser-side leftovers show as well. distinct = (RIS path, geometry, saved depth); non-trivial = the state before RIS differed from a fresh screen".into()
    }
    fn assumptions(&self) -> Vec<String> {
        assumptions()
    }
    fn required(&self, _t: Tier) -> Vec<&'static str> {
        vec![
            "fresh-compared",
            "continuation-step",
            "perturbed-grid",
            "perturbed-cursor",
            "perturbed-rendition",
            "perturbed-modes",
            "perturbed-margins",
            "perturbed-tabstops",
            "perturbed-charsets",
            "perturbed-title",
            "perturbed-hidden",
            "perturbed-saved-columns",
            "nonempty-saved-stack",
            "same-parser-across-RIS",
        ]
    }
    fn shard(&self, cx: &mut Ctx) {
        // nearly pristine screens: every chain of up to 4 (thorough: 5) operations that touch no
        // cell - modes, save / restore, shifts, rendition, tab stops, title - from a new screen,
        // then RIS (an implementation may not take "looks untouched" for "is untouched")
        if cx.begin_group("chains from a pristine screen") {
            let alpha: Vec<Op> = vec![
                Op::Feed("\x1b[?25l".into()),
                Op::Feed("\x1b[?25h".into()),
                Op::Feed("\x1b7".into()),
                Op::Feed("\x1b8".into()),
                Op::Feed("\x1b[?6h".into()),
                Op::Feed("\x1b[?7l".into()),
                Op::Feed("\x1b[?5h".into()),
                Op::Feed("\x1b[4h".into()),
                Op::Feed("\x0e".into()),
                Op::Feed("\x1b)B".into()),
                Op::Feed("\x1b[1;31m".into()),
                Op::Feed("\x1b[m".into()),
                Op::Feed("\x1bH".into()),
                Op::Feed("\x1b[2;3r".into()),
                Op::Feed("\x1b]2;t\x07".into()),
                Op::Feed("\x1b[2;2H".into()),
                Op::ClearDirty,
            ];
            let maxlen = if cx.quick() { 4 } else { 5 };
            let mut idx = vec![0usize; maxlen];
            let n = alpha.len();
            let mut k = 0u64;
            let mut complete = true;
            'chains: for len in 1..=maxlen {
                for i in idx.iter_mut() {
                    *i = 0;
                }
                loop {
                    k += 1;
                    if cx.mine(k) {
                        let h: Vec<Op> = idx[..len].iter().map(|i| alpha[*i].clone()).collect();
                        c15_run(cx, 6, 4, &h, k % 2 == 0, &[Op::Feed("x".into())], true);
                        if k % 4096 == 0 && (cx.used() > 0.4 || cx.out_of_time()) {
                            complete = false;
                            break 'chains;
                        }
                    }
                    // next
                    let mut pos = 0;
                    loop {
                        if pos == len {
                            break;
                        }
                        idx[pos] += 1;
                        if idx[pos] < n {
                            break;
                        }
                        idx[pos] = 0;
                        pos += 1;
                    }
                    if pos == len {
                        break;
                    }
                }
            }
            if complete {
                cx.stats.exhaustive_parts.insert(format!("every chain of up to {} operations over {} cell-free operations (modes, save / restore, shifts, rendition, tab stop, region, title, cursor move, embedder clearing dirty) from a new 6x4 screen, then RIS", maxlen, n));
            }
        }
        while !cx.out_of_time() {
            let (mut c, mut l) = gen::pick_geom(&mut cx.rng, cx.tier);
            let mut rng = cx.rng.fork(11);
            // one case in twelve: a screen at least 130 columns wide with the tab stops churned and
            // walked before the reset, and walked again after it
            let tab_case = rng.below(8) == 0;
            if tab_case {
                c = if rng.bool() { rng.range(130, 140) } else { 8 * rng.range(1, 6) };
                l = rng.range(1, 3);
            }
            if !cx.begin_group(&format!("ris {}x{}", c, l)) {
                if cx.past_only_group() {
                    break;
                }
                continue;
            }
            cx.stats.geoms.insert(format!("{}x{}", c, l));
            let big = c * l > 400;
            let n = 1 + rng.usize(if big { 10 } else { 50 });
            let mut h = mixed_history(&mut rng, c, l, n, true);
            // make sure the rarer components get perturbed too
            if rng.below(3) == 0 {
                h.push(Op::Api(Call::DefineCharset("U".into(), "(".into())));
                h.push(Op::Api(Call::ShiftOut));
            }
            if rng.below(3) == 0 {
                h.push(Op::Feed("\x1b]0;title\x07\x1b[?25l\x1b[2;3r\x1bH\x1b7".into()));
            }
            if rng.below(5) == 0 {
                h.push(Op::Feed("\x1b[?3h".into()));
            }
            let tn = rng.usize(if big { 6 } else { 25 });
            let t = no_restore(mixed_history(&mut rng, c, l, tn, true));
            if tab_case {
                for _ in 0..2 + rng.below(5) {
                    let x = match rng.below(6) {
                        0 => 1,
                        1 => 129,
                        2 => c,
                        3 => 8 * rng.range(0, c / 8) + 1,
                        _ => rng.range(1, c),
                    };
                    h.push(Op::Api(Call::CursorToColumn(Some(x))));
                    if x == c && rng.bool() {
                        // into the pending-wrap column first
                        h.push(Op::Api(Call::Draw("w".into())));
                    }
                    h.push(Op::Api(if rng.below(2) == 0 { Call::SetTabStop } else { Call::ClearTabStop(Some(0)) }));
                    if rng.below(3) == 0 {
                        h.push(Op::Api(Call::CarriageReturn));
                        for _ in 0..1 + rng.below(17) {
                            h.push(Op::Api(Call::Tab));
                        }
                    }
                }
                h.push(Op::Api(Call::CarriageReturn));
                h.push(Op::Api(Call::Tab));
            }
            let via_esc = rng.bool();
            let mut t = t;
            if tab_case {
                let mut walk = vec![Op::Api(Call::CarriageReturn)];
                for _ in 0..18 {
                    walk.push(Op::Api(Call::Tab));
                }
                walk.push(Op::Api(Call::CursorToColumn(Some(121))));
                walk.push(Op::Api(Call::Tab));
                for (i, o) in walk.into_iter().enumerate() {
                    t.insert(i, o);
                }
            }
            // a rendition built up in two steps under a random reverse-video state right before
            // the reset, and the second step again right after it
            if rng.below(8) == 0 {
                if rng.bool() {
                    h.push(Op::Api(Call::SetMode(vec![5], true)));
                }
                let r1 = match rng.below(3) {
                    0 => vec![27],
                    1 => vec![7],
                    _ => gen::rendition(&mut rng),
                };
                let r2 = match rng.below(4) {
                    0 => vec![0, 1],
                    1 => vec![0, 31, 4],
                    2 => vec![0],
                    _ => gen::rendition(&mut rng),
                };
                h.push(Op::Api(Call::Sgr(r1)));
                h.push(Op::Api(Call::Sgr(r2.clone())));
                t.insert(0, Op::Api(Call::Draw("x".into())));
                t.insert(0, Op::Api(Call::Sgr(r2)));
            }
            // the last few operations of the history again, verbatim, right after the reset: the
            // identical request must now act on the fresh state (nothing remembered about it)
            if rng.below(3) == 0 && !h.is_empty() {
                let k = 1 + rng.usize(3.min(h.len()));
                let tail: Vec<Op> = no_restore(h[h.len() - k..].to_vec());
                for (i, o) in tail.into_iter().enumerate() {
                    t.insert(i, o);
                }
            }
            if rng.below(3) == 0 {
                // leave / enter 132-column mode right after the reset: exposes a stale remembered width
                let at = rng.usize(t.len().min(3) + 1);
                t.insert(at, Op::Feed(if rng.below(3) == 0 { "\x1b[?3h".into() } else { "\x1b[?3l".into() }));
            }
            // every third case: one Parser for history, RIS and continuation (character input only)
            let mut keep = false;
            if rng.below(3) == 0 {
                let hk: Vec<Op> = h.iter().filter(|o| !matches!(o, Op::FeedBytes(_) | Op::Charset(_))).cloned().collect();
                let mut rp = crate::refparser::RefParser::new(true);
                for o in &hk {
                    if let Op::Feed(s) = o {
                        rp.feed(s);
                    }
                }
                if rp.is_ground() {
                    h = hk;
                    t.retain(|o| !matches!(o, Op::FeedBytes(_) | Op::Charset(_)));
                    keep = true;
                }
            }
            c15_run(cx, c, l, &h, via_esc, &t, keep);
        }
    }
    fn replay(&self, case: &Case, cx: &mut Ctx) {
        c15_run(cx, case.columns, case.lines, &case.setup, case.aux["via_esc"].as_bool().unwrap_or(true), &case.ops, case.aux["keep"].as_bool().unwrap_or(false));
    }
}
