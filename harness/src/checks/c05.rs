//! C05 - cursor movement and addressing follow the documented clamping rules.
//!
//! Exhaustive part: every small geometry x every region x DECOM x every reachable cursor
//! (incl. pending wrap) x every movement operation x every parameter of P(size), through the
//! API and through the parser.  Random part: zoo states on larger geometries.

use crate::call::Call;
use crate::checks::{Check, COMMON_ASSUMPTIONS};
use crate::core::{Case, Ctx, Tier};
use crate::engine::{fan_out, reach, replay_step, Cand, Path};
use crate::gen::{self, params_all, Profile};
use crate::sys::Op;

pub struct C05Check;
pub static C05: C05Check = C05Check;

pub fn movement_cands(l: u32, c: u32, full: bool, rng: &mut crate::rng::Rng) -> Vec<Cand> {
    use Call::*;
    let mut v: Vec<Call> = Vec::new();
    let pl = params_all(l);
    let pc = params_all(c);
    let pick = |all: &Vec<Option<u32>>, rng: &mut crate::rng::Rng| -> Vec<Option<u32>> {
        if full {
            all.clone()
        } else {
            let mut o = vec![None, Some(0), Some(1), Some(9999)];
            for _ in 0..3 {
                o.push(*rng.pick(all));
            }
            o
        }
    };
    for n in pick(&pl, rng) {
        v.push(CursorUp(n));
        v.push(CursorDown(n));
        v.push(CursorUp1(n));
        v.push(CursorDown1(n));
        v.push(CursorToLine(n));
    }
    for n in pick(&pc, rng) {
        v.push(CursorForward(n));
        v.push(CursorBack(n));
        v.push(CursorToColumn(n));
    }
    let ls = pick(&pl, rng);
    let cs = pick(&pc, rng);
    for a in &ls {
        for b in &cs {
            v.push(CursorPosition(*a, *b));
        }
    }
    v.push(Backspace);
    v.push(CarriageReturn);
    let mut out = Vec::new();
    for call in v {
        out.push(Cand { call: call.clone(), path: Path::Api });
        out.push(Cand { call, path: Path::Parser });
    }
    // HPR / VPR / HVP spellings exist only on the parser side (same listener methods)
    out
}

impl Check for C05Check {
    fn id(&self) -> &'static str {
        "C05"
    }
    fn rule(&self) -> String {
        "per-step Hoare monitor: cursor after each movement call (CUU CUD CUF CUB CNL CPL CHA VPA CUP/HVP BS CR; API and escape sequence through a fresh parser) vs closed-form expectation computed from the implementation's own pre-state, and equality of every other component. Enumerated: small geometries x every region x DECOM x every reachable cursor incl. pending wrap x every operation x P(size) (both CUP parameters); plus random zoo states on larger geometries. distinct = (state bucket [geometry class, cursor-x class, cursor-y class vs region, margins, DECOM, DECAWM, IRM, LNM, DECSCNM, G1, blank row, wide char near cursor, saved depth], operation, parameter class, path); non-trivial = the step moved the cursor or exercised a clamp".into()
    }
    fn assumptions(&self) -> Vec<String> {
        COMMON_ASSUMPTIONS.iter().map(|s| s.to_string()).collect()
    }
    fn required(&self, _t: Tier) -> Vec<&'static str> {
        vec!["step-judged", "pending-wrap", "margins", "DECOM"]
    }
    fn shard(&self, cx: &mut Ctx) {
        let prof = Profile { no_resize: true, ..Default::default() };
        // ---- exhaustive part ---------------------------------------------------------------
        let geoms: Vec<(u32, u32)> = if cx.quick() {
            vec![(1, 1), (1, 4), (4, 1), (2, 2), (3, 3), (5, 4)]
        } else {
            vec![(1, 1), (1, 4), (4, 1), (2, 2), (3, 3), (5, 4), (2, 1), (1, 2), (8, 3), (6, 6), (10, 6)]
        };
        let mut idx: u64 = 0;
        let mut complete = true;
        'ex: for (c, l) in geoms.iter().cloned() {
            // regions: none + every (top,bottom)
            let mut regions: Vec<Option<(u32, u32)>> = vec![None];
            for t in 0..l {
                for b in t + 1..l {
                    regions.push(Some((t, b)));
                }
            }
            for region in regions {
                for decom in [false, true] {
                    for y in 0..l {
                        if decom {
                            if let Some((t, b)) = region {
                                if y < t || y > b {
                                    continue; // unreachable with origin mode on
                                }
                            }
                        }
                        for x in 0..=c {
                            idx += 1;
                            if !cx.mine(idx) {
                                continue;
                            }
                            if cx.out_of_time() {
                                complete = false;
                                break 'ex;
                            }
                            if !cx.begin_group(&format!("ex {}x{} {:?} {} {},{}", c, l, region, decom, x, y)) {
                                continue;
                            }
                            let mut rng = crate::rng::Rng::new(idx * 31 + 7);
                            let mut setup = gen::setup(&mut rng, c, l, &Profile { margins: 1, no_resize: true, ..Default::default() });
                            // drop the generator's own cursor placement / margins: we enumerate them
                            setup.push(Op::Api(Call::SetMargins(None, None)));
                            setup.push(Op::Api(Call::ResetMode(vec![6], true)));
                            if let Some((t, b)) = region {
                                setup.push(Op::Api(Call::SetMargins(Some(t + 1), Some(b + 1))));
                            }
                            if decom {
                                setup.push(Op::Api(Call::SetMode(vec![6], true)));
                            }
                            let rel = if decom { region.map(|r| r.0).unwrap_or(0) } else { 0 };
                            if x == c {
                                setup.push(Op::Api(Call::CursorPosition(Some(y - rel + 1), Some(c))));
                                setup.push(Op::Api(Call::ResetMode(vec![4], false)));
                                setup.push(Op::Api(Call::Draw("#".into())));
                            } else {
                                setup.push(Op::Api(Call::CursorPosition(Some(y - rel + 1), Some(x + 1))));
                            }
                            if let Some((base, pre)) = reach(cx, c, l, &setup) {
                                if (pre.cx, pre.cy) != (x, y) || pre.margins != region {
                                    cx.stats.count("enumerated_state_not_reached", 1);
                                    continue;
                                }
                                cx.stats.count("exhaustive_states", 1);
                                let cands = movement_cands(l, c, true, &mut rng);
                                fan_out(cx, "C05", c, l, &setup, &base, &pre, &cands);
                            }
                        }
                    }
                }
            }
        }
        if complete {
            cx.stats.exhaustive_parts.insert(format!(
                "every (region, DECOM, cursor incl. pending wrap) x 11 movement operations x P(size) x {{API, parser}} on geometries {:?}",
                geoms
            ));
        }
        // ---- random zoo states ---------------------------------------------------------------
        while !cx.out_of_time() {
            let (c, l) = gen::pick_geom(&mut cx.rng, cx.tier);
            let mut rng = cx.rng.fork(1);
            if !cx.begin_group(&format!("zoo {}x{}", c, l)) {
                if cx.past_only_group() {
                    break;
                }
                continue;
            }
            let setup = gen::setup(&mut rng, c, l, &prof);
            if let Some((base, pre)) = reach(cx, c, l, &setup) {
                cx.stats.count("zoo_states", 1);
                let cands = movement_cands(l, c, false, &mut rng);
                fan_out(cx, "C05", c, l, &setup, &base, &pre, &cands);
            }
        }
    }
    fn replay(&self, case: &Case, cx: &mut Ctx) {
        replay_step(cx, "C05", case);
    }
}
