//! History-driven monitors: C09 (well-formedness invariant after every step) and C17 (dirty set
//! covers every changed row), both over long mixed histories observed call by call via the Tap.

use serde_json::json;

use crate::call::Call;
use crate::checks::{Check, COMMON_ASSUMPTIONS};
use crate::core::{Case, Ctx, Tier, Viol};
use crate::engine::{sig_bucket, state_bucket, wellformed};
use crate::gen;
use crate::refsem::{DECAWM, DECSCNM};
use crate::rng::Rng;
use crate::snapshot::Snap;
use crate::sys::{panic_sig, Ev, Op, Sys, PK};

fn assumptions() -> Vec<String> {
    COMMON_ASSUMPTIONS.iter().map(|s| s.to_string()).collect()
}

/// a long mixed history: byte input, API calls, resizes, DECCOLM, display(), dirty clearing
pub fn mixed_history(rng: &mut Rng, c: u32, l: u32, n: usize, with_clear: bool) -> Vec<Op> {
    let mut ops: Vec<Op> = Vec::new();
    let (mut cc, mut cl) = (c, l);
    // sizes the screen has had: a later resize (or a DECCOLM switch) often returns to one of them
    let mut sizes: Vec<(u32, u32)> = vec![(c, l)];
    for _ in 0..n {
        // an earlier operation of this history again, verbatim (see gen::session)
        if ops.len() > 2 && rng.below(12) == 0 {
            let o = ops[rng.usize(ops.len())].clone();
            if !matches!(o, Op::Api(Call::Resize(..))) {
                ops.push(o);
                continue;
            }
        }
        match rng.below(100) {
            0..=39 => {
                let k = 1 + rng.usize(6);
                ops.push(Op::Feed(gen::session(rng, cc, cl, k)));
            }
            40..=47 => {
                let s = gen::session(rng, cc, cl, 3);
                ops.push(Op::FeedBytes(gen::mutate_bytes(rng, &s)));
            }
            48..=77 => ops.push(Op::Api(gen::api_call(rng, cc, cl))),
            78..=87 => {
                // resize, biased to follow cursor / tab / dirty activity
                ops.push(Op::Api(Call::CursorPosition(gen::param(rng, cl), gen::param(rng, cc))));
                if rng.bool() {
                    ops.push(Op::Api(Call::SetTabStop));
                }
                cl = match rng.below(4) {
                    0 => 1,
                    1 => cl + rng.range(0, 3),
                    _ => rng.range(1, cl + 2),
                };
                cc = match rng.below(4) {
                    0 => 1,
                    1 => cc + rng.range(0, 3),
                    _ => rng.range(1, cc + 2),
                };
                if rng.below(3) == 0 {
                    // exactly a size the screen had before (a relation between two operations)
                    let (pc, pl) = *rng.pick(&sizes);
                    cc = pc;
                    cl = pl;
                }
                sizes.push((cc, cl));
                let (a, b) = match rng.below(5) {
                    0 => (Some(cl), None),
                    1 => (None, Some(cc)),
                    _ => (Some(cl), Some(cc)),
                };
                ops.push(Op::Api(Call::Resize(a, b)));
            }
            88 => {
                // a mode number the emulator does not implement, set or reset
                let n = if rng.bool() { *rng.pick(&gen::OTHER_MODES) } else { rng.range(0, 130) };
                ops.push(Op::Feed(format!("\x1b[{}{}{}", if rng.below(4) != 0 { "?" } else { "" }, n, if rng.below(3) != 0 { 'h' } else { 'l' })));
            }
            89 => {
                // an excursion into 132-column mode with the cursor taken far to the right
                ops.push(Op::Feed(format!("\x1b[?3h\x1b[{};{}H", rng.range(1, cl), if cc >= 132 { 132 } else { rng.range(cc, 132) })));
                if rng.bool() {
                    ops.push(Op::Feed(gen::text_run(rng, 6)));
                }
                ops.push(Op::Feed("\x1b[?3l".into()));
            }
            90 => {
                ops.push(Op::Feed(if rng.bool() { "\x1b[?3h".into() } else { "\x1b[?3l".into() }));
                // the width is now unknown to the generator: fine, parameters are only hints
                if rng.bool() {
                    cc = 132;
                }
            }
            91..=94 => ops.push(Op::Api(Call::Display)),
            _ => {
                if with_clear {
                    ops.push(Op::ClearDirty)
                } else {
                    ops.push(Op::Api(Call::Tab))
                }
            }
        }
        if with_clear && rng.below(100) < 12 {
            ops.push(Op::ClearDirty);
        }
    }
    ops
}

/// execute a history, returning per-op event lists (post snapshots recorded per listener call)
fn observe(c: u32, l: u32, ops: &[Op]) -> (Vec<(usize, Snap, Vec<Ev>, Snap)>, Option<(usize, crate::sys::PanicInfo, Vec<Ev>, Snap)>) {
    let mut sys = Sys::new(c, l, PK::Bytes);
    let mut out = Vec::new();
    for (i, op) in ops.iter().enumerate() {
        let pre = sys.snap();
        let r = sys.try_apply(op);
        let evs = sys.take_events();
        match r {
            Ok(()) => {
                let post = sys.snap();
                out.push((i, pre, evs, post));
            }
            Err(p) => return (out, Some((i, p, evs, pre))),
        }
    }
    (out, None)
}

// =============================================================================================
// C09
// =============================================================================================

pub struct C09Check;
pub static C09: C09Check = C09Check;

fn c09_run(cx: &mut Ctx, c: u32, l: u32, ops: &[Op]) {
    let mk = |upto: usize| {
        let mut case = Case::new("C09", "history", c, l, PK::Bytes);
        case.ops = ops[..=upto.min(ops.len() - 1)].to_vec();
        case
    };
    // construction
    {
        let s = Sys::new(c, l, PK::None);
        let snap = s.snap();
        cx.stats.clause("after-construction");
        for (cl, d) in wellformed(&snap) {
            cx.violation(Viol { prop: "C09".into(), clause: cl.into(), op: "new".into(), bucket: "-".into(), detail: d, case: mk(0) });
        }
    }
    let (steps, panic) = observe(c, l, ops);
    for (i, pre, evs, post_op) in &steps {
        let mut cur = pre.clone();
        for ev in evs {
            let post = match &ev.post {
                Some(p) => p,
                None => break,
            };
            let pre_bad: Vec<&'static str> = wellformed(&cur).into_iter().map(|x| x.0).collect();
            let bad = wellformed(post);
            let key = format!("{}|{}|{}", state_bucket(&cur), ev.call.kind(), ev.call.param_class(cur.lines, cur.columns));
            cx.stats.eval(&key, !cur.eq_nodirty(post) || cur.dirty != post.dirty);
            cx.stats.op(ev.call.kind());
            cx.stats.clause("invariant-evaluated");
            if matches!(ev.call, Call::Resize(..)) {
                cx.stats.feature(if post.lines < cur.lines || post.columns < cur.columns { "resize-shrink" } else { "resize-grow-or-same" });
            }
            for (cl, d) in bad {
                if pre_bad.contains(&cl) {
                    continue; // already reported where it first appeared
                }
                cx.violation(Viol {
                    prop: "C09".into(),
                    clause: cl.into(),
                    op: ev.call.kind().into(),
                    bucket: sig_bucket(&cur, &ev.call),
                    detail: format!("{:?} from state\n{}=> {}", ev.call, cur.render(), d),
                    case: mk(*i),
                });
            }
            cur = post.clone();
        }
        // display() returns exactly `lines` strings (on a fork: the monitor must not materialise)
        let _ = post_op;
    }
    // display length probe on the final state and at a few intermediate points
    {
        let mut sys = Sys::new(c, l, PK::Bytes);
        sys.set_recording(false, false);
        for (i, op) in ops.iter().enumerate() {
            if sys.try_apply(op).is_err() {
                break;
            }
            if i % 5 == 4 || i + 1 == ops.len() {
                let mut fork = sys.fork_screen();
                let lines = fork.lines as usize;
                let r = crate::sys::catch(|| memterm::parser_listener::ParserListener::display(&mut fork));
                cx.stats.clause("display-len");
                match r {
                    Ok(v) => {
                        if v.len() != lines {
                            cx.violation(Viol {
                                prop: "C09".into(),
                                clause: "display-len".into(),
                                op: "display".into(),
                                bucket: "-".into(),
                                detail: format!("display() returned {} strings on a screen of {} lines", v.len(), lines),
                                case: mk(i),
                            });
                        }
                    }
                    Err(p) => {
                        cx.violation(Viol {
                            prop: "C09".into(),
                            clause: "display-panic".into(),
                            op: "display".into(),
                            bucket: panic_sig(&p),
                            detail: format!("display() panicked: {} at {}", p.msg, p.loc),
                            case: mk(i),
                        });
                    }
                }
            }
        }
    }
    if panic.is_some() {
        cx.stats.count("histories_cut_short_by_panic", 1); // C01's business
    }
}

impl Check for C09Check {
    fn id(&self) -> &'static str {
        "C09"
    }
    fn rule(&self) -> String {
        "invariant hook evaluated after construction and after every listener call (observed by the pass-through listener, so also inside a single feed()) and every resize of long mixed histories: 0<=y<lines, 0<=x<=columns, margins absent or 0<=top<bottom<=lines-1, every dirty index < lines, display() returns `lines` strings (on a fork), every visible cell's and the cursor's fg/bg is a documented name or six hex digits. A violation is attributed to the call after which it first holds. Histories: byte input (sessions, hostile mutations), API calls with arguments absent or 0..=9999, resizes grow/shrink in both dimensions, DECCOLM, display(). distinct = (state bucket, call kind, parameter class); non-trivial = the call changed the state".into()
    }
    fn assumptions(&self) -> Vec<String> {
        assumptions()
    }
    fn required(&self, _t: Tier) -> Vec<&'static str> {
        vec!["invariant-evaluated", "display-len", "resize-shrink", "after-construction"]
    }
    fn shard(&self, cx: &mut Ctx) {
        while !cx.out_of_time() {
            let (c, l) = gen::pick_geom(&mut cx.rng, cx.tier);
            let mut rng = cx.rng.fork(3);
            if !cx.begin_group(&format!("hist {}x{}", c, l)) {
                if cx.past_only_group() {
                    break;
                }
                continue;
            }
            let n = 5 + rng.usize(if c * l > 400 { 20 } else { 60 });
            let ops = mixed_history(&mut rng, c, l, n, true);
            cx.stats.geoms.insert(format!("{}x{}", c, l));
            c09_run(cx, c, l, &ops);
        }
    }
    fn replay(&self, case: &Case, cx: &mut Ctx) {
        c09_run(cx, case.columns, case.lines, &case.ops);
    }
}

// =============================================================================================
// C17
// =============================================================================================

pub struct C17Check;
pub static C17: C17Check = C17Check;

fn screen_wide(call: &Call, pre: &Snap, post: &Snap) -> Option<&'static str> {
    match call {
        Call::Resize(..) if (pre.lines, pre.columns) != (post.lines, post.columns) => Some("resize"),
        Call::Reset => Some("reset"),
        Call::AlignmentDisplay => Some("alignment"),
        Call::SetMode(..) | Call::ResetMode(..) if pre.has_mode(DECSCNM) != post.has_mode(DECSCNM) => Some("reverse-video"),
        Call::SetMode(..) | Call::ResetMode(..) if pre.columns != post.columns => Some("resize"),
        Call::Index | Call::Linefeed if pre.cy == pre.region().1 => Some("scroll"),
        Call::ReverseIndex if pre.cy == pre.region().0 => Some("scroll"),
        Call::Draw(s) if pre.cx >= pre.columns && pre.has_mode(DECAWM) && pre.cy == pre.region().1 && s.chars().next().map(|c| unicode_width::UnicodeWidthChar::width(c).unwrap_or(0) > 0).unwrap_or(false) => Some("scroll"),
        _ => None,
    }
}

fn c17_run(cx: &mut Ctx, c: u32, l: u32, ops: &[Op]) {
    let mk = |upto: usize| {
        let mut case = Case::new("C17", "history", c, l, PK::Bytes);
        case.ops = ops[..=upto.min(ops.len() - 1)].to_vec();
        case
    };
    let (steps, _panic) = observe(c, l, ops);
    // the monitor plays the embedder: `required` = rows that changed since dirty was last cleared
    let mut required: std::collections::BTreeSet<u32> = (0..l).collect(); // a new screen is all dirty
    for (i, pre, evs, post_op) in &steps {
        if matches!(ops[*i], Op::ClearDirty) {
            required.clear();
            cx.stats.clause("window-cleared");
            continue;
        }
        let mut cur = pre.clone();
        for ev in evs {
            let post = match &ev.post {
                Some(p) => p,
                None => break,
            };
            if !wellformed(&cur).iter().all(|w| w.0 == "dirty-range" || w.0 == "colour") {
                cur = post.clone();
                continue;
            }
            let changed = cur.rows_differing(post);
            let wide = screen_wide(&ev.call, &cur, post);
            if post.lines < cur.lines {
                required = required.iter().cloned().filter(|r| *r < post.lines).collect();
            }
            if wide.is_some() {
                required.extend(0..post.lines);
            }
            required.extend(changed.iter().cloned());
            let key = format!("{}|{}|{}|wide={:?}", state_bucket(&cur), ev.call.kind(), ev.call.param_class(cur.lines, cur.columns), wide);
            cx.stats.eval(&key, !changed.is_empty() || wide.is_some());
            cx.stats.op(ev.call.kind());
            cx.stats.clause("window-step");
            if let Some(w) = wide {
                cx.stats.feature(w);
            }
            if changed.iter().any(|r| *r != cur.cy && *r != post.cy) {
                cx.stats.feature("changed-row-other-than-cursor-row");
            }
            let missing: Vec<u32> = required.iter().cloned().filter(|r| !post.dirty.contains(r)).collect();
            if !missing.is_empty() {
                let clause = if wide.is_some() { "not-all" } else { "missed-row" };
                cx.violation(Viol {
                    prop: "C17".into(),
                    clause: clause.into(),
                    op: ev.call.kind().into(),
                    bucket: format!("{}|wide={:?}", sig_bucket(&cur, &ev.call), wide),
                    detail: format!(
                        "{:?} from state\n{}changed rows {:?} (screen-wide: {:?}); rows changed since the last clear but not in dirty: {:?}; dirty = {:?}\nstate after:\n{}",
                        ev.call,
                        cur.render(),
                        changed,
                        wide,
                        missing,
                        post.dirty,
                        post.render()
                    ),
                    case: mk(*i),
                });
                // report each miss once
                for m in missing {
                    required.remove(&m);
                }
            }
            if let Some(mx) = post.dirty.iter().next_back() {
                if *mx >= post.lines && !cur.dirty.iter().any(|d| *d >= cur.lines) {
                    cx.violation(Viol {
                        prop: "C17".into(),
                        clause: "stale-index".into(),
                        op: ev.call.kind().into(),
                        bucket: sig_bucket(&cur, &ev.call),
                        detail: format!("{:?}: dirty contains {} but the screen has {} lines", ev.call, mx, post.lines),
                        case: mk(*i),
                    });
                }
            }
            cur = post.clone();
        }
        let _ = post_op;
    }
}

/// targeted histories for the cases the property names
fn c17_targeted(rng: &mut Rng, c: u32, l: u32) -> Vec<Op> {
    use Call::*;
    let mut ops: Vec<Op> = Vec::new();
    let fill = gen::setup(rng, c, l, &gen::Profile::default());
    ops.extend(fill);
    ops.push(Op::ClearDirty);
    match rng.below(10) {
        9 => {
            // one draw() call: a combining mark lands on the last cell of the row, the following
            // character wraps away from it
            let y = rng.range(1, l);
            ops.push(Op::Api(SetMode(vec![7], true)));
            ops.push(Op::Api(CursorPosition(Some(y), Some(c))));
            ops.push(Op::Api(Draw("e".into())));
            ops.push(Op::ClearDirty);
            ops.push(Op::Api(Draw(format!("{}f", rng.pick(&gen::COMBINING)))));
        }
        8 => {
            // a mode that is already set is set again: whatever changes must still be reported
            let m = *rng.pick(&[5u32, 6, 7, 25, 3]);
            ops.push(Op::Api(SetMode(vec![m], true)));
            ops.push(Op::Feed(format!("\x1b[27m\x1b[{};1Hre\x1b[7mv", rng.range(1, l))));
            ops.push(Op::ClearDirty);
            ops.push(Op::Api(if rng.bool() { SetMode(vec![m], true) } else { SetMode(vec![m << 5], false) }));
            ops.push(Op::ClearDirty);
            ops.push(Op::Api(ResetMode(vec![m], true)));
            ops.push(Op::ClearDirty);
            ops.push(Op::Api(ResetMode(vec![m], true)));
        }
        0 => {
            // combining mark at column 0 changes the previous row
            ops.push(Op::Api(CursorPosition(Some(rng.range(1, l)), Some(1))));
            ops.push(Op::ClearDirty);
            ops.push(Op::Api(Draw("\u{0308}".into())));
        }
        1 => {
            let spelled = rng.bool();
            ops.push(Op::Api(if spelled { SetMode(vec![160], false) } else { SetMode(vec![5], true) }));
            ops.push(Op::ClearDirty);
            ops.push(Op::Api(if rng.bool() { ResetMode(vec![160], false) } else { ResetMode(vec![5], true) }));
        }
        2 => {
            ops.push(Op::Api(Resize(Some(rng.range(1, l + 1)), Some(rng.range(1, c + 1)))));
            ops.push(Op::ClearDirty);
            ops.push(Op::Api(Resize(Some(l), Some(c))));
        }
        3 => {
            // wrap across rows
            ops.push(Op::Api(SetMode(vec![7], true)));
            ops.push(Op::Api(CursorPosition(Some(rng.range(1, l)), Some(c))));
            ops.push(Op::ClearDirty);
            ops.push(Op::Feed("wrap".into()));
        }
        4 => {
            ops.push(Op::Feed(format!("\x1b[{};{}r", 1, l.max(2) - 1)));
            ops.push(Op::ClearDirty);
            ops.push(Op::Feed("\x1bM\x1bM\n\n\n\n".into()));
        }
        5 => {
            ops.push(Op::Feed("\x1b[?3h".into()));
            ops.push(Op::ClearDirty);
            ops.push(Op::Feed("\x1b[?3l".into()));
        }
        6 => {
            ops.push(Op::Api(AlignmentDisplay));
            ops.push(Op::ClearDirty);
            ops.push(Op::Api(Reset));
        }
        _ => {
            for _ in 0..6 {
                ops.push(Op::Api(gen::api_call(rng, c, l)));
                ops.push(Op::ClearDirty);
            }
        }
    }
    ops
}

impl Check for C17Check {
    fn id(&self) -> &'static str {
        "C17"
    }
    fn rule(&self) -> String {
        "model-free window monitor playing the embedder: Screen.dirty is cleared at random moments (and after every call in the targeted part); after every listener call / resize, required := required U {rows whose normalised cells differ between the snapshots before and after}; a resize, reset, alignment display, reverse-video switch or scroll makes required = all rows; then required must be a subset of dirty and dirty must contain no index >= lines. Histories: mixed byte/API/resize/DECCOLM traffic plus targeted ones (combining mark at column 0, both spellings of DECSCNM, shrink, wrap across rows, regions, DECCOLM, DECALN/RIS). distinct = (state bucket, call kind, parameter class, screen-wide class); non-trivial = some row changed or a screen-wide change happened".into()
    }
    fn assumptions(&self) -> Vec<String> {
        assumptions()
    }
    fn required(&self, _t: Tier) -> Vec<&'static str> {
        vec!["window-step", "window-cleared", "resize", "scroll", "reverse-video", "reset", "alignment", "changed-row-other-than-cursor-row"]
    }
    fn shard(&self, cx: &mut Ctx) {
        while !cx.out_of_time() {
            let (c, l) = gen::pick_geom(&mut cx.rng, cx.tier);
            let mut rng = cx.rng.fork(5);
            if !cx.begin_group(&format!("hist {}x{}", c, l)) {
                if cx.past_only_group() {
                    break;
                }
                continue;
            }
            cx.stats.geoms.insert(format!("{}x{}", c, l));
            if rng.below(3) == 0 {
                let ops = c17_targeted(&mut rng, c, l);
                c17_run(cx, c, l, &ops);
            } else if rng.below(4) == 0 {
                // "repaint": after a history, cells are drawn again with exactly the text and the
                // rendition they already have (dirty cleared before each): whatever a draw changes
                // on the way - the other half of a wide pair, a neighbour - must still be reported
                let n = 3 + rng.usize(if c * l > 400 { 6 } else { 20 });
                let mut ops = mixed_history(&mut rng, c, l, n, true);
                // wide pairs split by an edit are the interesting content
                ops.push(Op::Feed({ let y = rng.range(1, l); format!("\x1b[{};1H\x1b[44m{}\x1b[41m{}x\x1b[{};2H\x1b[{}P", y, '\u{4e16}', '\u{754c}', y, rng.range(1, 3)) }));
                let mut probe = Sys::new(c, l, PK::Chars);
                probe.set_recording(false, false);
                if crate::sys::run_ops(&mut probe, &ops).is_ok() {
                    let snap = probe.snap();
                    if wellformed(&snap).is_empty() {
                        for _ in 0..6 {
                            let (y, x) = (rng.below(snap.lines as u64) as usize, rng.below(snap.columns as u64) as usize);
                            let cell = &snap.grid[y][x];
                            if cell.text.is_empty() || cell.text == " " && rng.bool() {
                                continue;
                            }
                            ops.push(Op::Api(Call::Sgr(gen::sgr_of(&cell.attr))));
                            ops.push(Op::Api(Call::CursorPosition(Some(y as u32 + 1), Some(x as u32 + 1))));
                            ops.push(Op::ClearDirty);
                            ops.push(Op::Api(Call::Draw(cell.text.clone())));
                        }
                        c17_run(cx, c, l, &ops);
                    }
                }
            } else {
                let n = 5 + rng.usize(if c * l > 400 { 12 } else { 40 });
                let ops = mixed_history(&mut rng, c, l, n, true);
                c17_run(cx, c, l, &ops);
            }
        }
    }
    fn replay(&self, case: &Case, cx: &mut Ctx) {
        c17_run(cx, case.columns, case.lines, &case.ops);
    }
}

#[allow(dead_code)]
fn _unused(_: &Ev) -> serde_json::Value {
    json!(null)
}
