//! C01 - no input can crash, hang or wedge the emulator.
//!
//! Oracle: return-vs-unwind of every feed()/API call/resize/display in an overflow-checked build,
//! inside a child process (aborts, signals and hangs are seen by the parent's watchdog), followed
//! by a liveness probe: display() returns `lines` rows, the resync string brings the recogniser
//! back to ground and a sentinel is drawn.  Sanitizer slices (ASan / valgrind / Miri) run the same
//! workloads under instrumentation (see /verif/check and DESIGN §5).

use serde_json::json;

use crate::call::Call;
use crate::checks::histories::mixed_history;
use crate::checks::parsing::ALPHABET;
use crate::checks::{Check, COMMON_ASSUMPTIONS};
use crate::core::{Case, Ctx, Tier, Viol};
use crate::gen;
use crate::rng::Rng;
use crate::sys::{catch, lock, panic_sig, Op, Sys, PK};

pub struct C01Check;
pub static C01: C01Check = C01Check;

fn op_kind(op: &Op) -> String {
    match op {
        Op::Feed(_) => "feed".into(),
        Op::FeedBytes(_) => "feed_bytes".into(),
        Op::Api(c) => c.kind().into(),
        Op::ClearDirty => "clear_dirty".into(),
        Op::Charset(_) => "select_other_charset".into(),
    }
}

/// the operations applied with the Screen itself as the parser's listener; Some((index, panic))
/// if one of them (or the display() / further input afterwards) panics
fn direct_run(c: u32, l: u32, pk: PK, ops: &[Op]) -> Option<(usize, crate::sys::PanicInfo)> {
    use memterm::parser_listener::ParserListener;
    use std::sync::{Arc, Mutex};
    let scr = Arc::new(Mutex::new(memterm::screen::Screen::new(c, l)));
    let mut p = if pk == PK::Chars { Some(memterm::parser::Parser::new(scr.clone())) } else { None };
    let mut bp = if pk == PK::Bytes { Some(memterm::byte_parser::ByteParser::new(scr.clone())) } else { None };
    for (i, op) in ops.iter().enumerate() {
        let r = catch(|| match op {
            Op::Feed(s) => {
                if let Some(p) = p.as_mut() {
                    p.feed(s.clone())
                } else if let Some(bp) = bp.as_mut() {
                    bp.feed(s.as_bytes())
                }
            }
            Op::FeedBytes(b) => {
                if let Some(bp) = bp.as_mut() {
                    bp.feed(b)
                } else if let Some(p) = p.as_mut() {
                    p.feed(String::from_utf8_lossy(b).into_owned())
                }
            }
            Op::Api(call) => {
                let mut g = scr.lock().unwrap_or_else(|e| e.into_inner());
                match call {
                    Call::Resize(a, b) => g.resize(*a, *b),
                    Call::Display => {
                        let _ = g.display();
                    }
                    other => other.apply(&mut *g),
                }
            }
            Op::ClearDirty => scr.lock().unwrap_or_else(|e| e.into_inner()).dirty.clear(),
            Op::Charset(code) => {
                if let Some(bp) = bp.as_mut() {
                    bp.select_other_charset(code);
                }
            }
        });
        if let Err(pi) = r {
            return Some((i, pi));
        }
    }
    let r = catch(|| {
        let _ = scr.lock().unwrap_or_else(|e| e.into_inner()).display();
    });
    if let Err(pi) = r {
        return Some((ops.len().saturating_sub(1), pi));
    }
    None
}

pub fn c01_case(cx: &mut Ctx, c: u32, l: u32, pk: PK, ops: &[Op], kind: &str) {
    let mk = |n: usize| {
        let mut case = Case::new("C01", "ops", c, l, pk);
        case.ops = ops[..n.min(ops.len())].to_vec();
        case
    };
    cx.journal_case(&|| mk(ops.len()));
    // every third case also runs with the Screen attached to the parser DIRECTLY (no pass-through
    // listener in between): listener methods the wrapper does not forward - a defaulted trait
    // method that only Screen overrides - are exercised only this way
    if cx.stats.evaluations % 3 == 0 {
        if let Some((i, p)) = direct_run(c, l, pk, ops) {
            cx.stats.clause("direct-run");
            cx.violation(Viol {
                prop: "C01".into(),
                clause: "panic".into(),
                op: "direct".into(),
                bucket: panic_sig(&p),
                detail: format!("with the Screen attached directly to the parser, op #{} ({}) panicked: '{}' at {}", i, op_kind(&ops[i]), p.msg, p.loc),
                case: mk(i + 1),
            });
            return;
        }
        cx.stats.clause("direct-run");
    }
    let mut sys = Sys::new(c, l, pk);
    // record calls (not snapshots): the call in flight names the operation that panicked
    sys.set_recording(true, false);
    // every 64th parser case measures how much of the 32 KiB coroutine stack gets used: a BEL
    // (no effect on the screen) yields a stack address inside a listener call, the dead part
    // of the stack below it is painted, and the paint is inspected after the case
    let mut painted: Option<(usize, usize)> = None;
    if pk != PK::None && cx.stats.evaluations % 64 == 0 && std::env::var("VERIF_NO_PAINT").is_err() {
        if sys.try_apply(&Op::Feed("\x07".into())).is_ok() {
            let sp = sys.t().sp_min;
            if sp != usize::MAX {
                if let Some((lo, hi)) = crate::sys::small_rw_mapping_of(sp) {
                    crate::sys::paint_stack(lo, sp);
                    painted = Some((lo, hi));
                }
            }
            let mut t = sys.t();
            t.ev.clear();
            t.sp_min = usize::MAX;
            t.sp_max = 0;
        }
    }
    let key = format!("{}|{:?}|{}x{}", kind, pk, if c <= 10 { c } else { 99 }, if l <= 6 { l } else { 99 });
    cx.stats.clause("case-run");
    let mut nontrivial = false;
    for (i, op) in ops.iter().enumerate() {
        cx.stats.op(&op_kind(op));
        let r = sys.try_apply(op);
        let mut t = sys.t();
        let calls = t.ev.len();
        if calls > 0 {
            nontrivial = true;
        }
        if let Err(p) = r {
            let inflight = t.ev.iter().find(|e| e.post.is_none()).map(|e| e.call.kind());
            // (with snapshots off every event has post == None: the last one is the call in flight)
            let inflight = t.ev.last().map(|e| e.call.kind()).or(inflight).unwrap_or("parser");
            let where_ = if p.loc.contains("screen.rs") { inflight } else { "parser" };
            drop(t);
            cx.stats.eval(&key, true);
            cx.violation(Viol {
                prop: "C01".into(),
                clause: "panic".into(),
                op: where_.to_string(),
                bucket: panic_sig(&p),
                detail: format!("{} panicked in op #{} ({}): '{}' at {}", where_, i, op_kind(op), p.msg, p.loc),
                case: mk(i + 1),
            });
            return;
        }
        // coroutine stack usage seen at listener entry
        if t.sp_min != usize::MAX && t.sp_max >= t.sp_min {
            let span = (t.sp_max - t.sp_min) as u64;
            if span < (1 << 20) {
                cx.stats.max("max_stack_span_at_listener_entry_bytes", span);
            }
        }
        t.ev.clear();
        t.sp_min = usize::MAX;
        t.sp_max = 0;
    }
    cx.stats.eval(&key, nontrivial);
    if let Some((lo, hi)) = painted {
        let hw = crate::sys::stack_high_water(lo, hi) as u64;
        cx.stats.max("max_coroutine_stack_high_water_bytes", hw);
        cx.stats.max("max_coroutine_stack_size_bytes", (hi - lo) as u64);
        cx.stats.count("coroutine_stack_measurements", 1);
    }
    // ---- liveness probe -------------------------------------------------------------------
    sys.set_recording(false, false);
    let lines_now = sys.t().scr.lines as usize;
    let d = catch(|| {
        let mut t = lock(&sys.tap);
        memterm::parser_listener::ParserListener::display(&mut t.scr)
    });
    cx.stats.clause("liveness-probe");
    match d {
        Err(p) => {
            cx.violation(Viol { prop: "C01".into(), clause: "panic".into(), op: "display".into(), bucket: panic_sig(&p), detail: format!("display() after the input panicked: {} at {}", p.msg, p.loc), case: mk(ops.len()) });
            return;
        }
        Ok(rows) => {
            if rows.len() != lines_now {
                cx.violation(Viol { prop: "C01".into(), clause: "wedge".into(), op: "display".into(), bucket: "rows".into(), detail: format!("display() returned {} rows for {} lines", rows.len(), lines_now), case: mk(ops.len()) });
                return;
            }
        }
    }
    if pk != PK::None {
        // resync (BEL BEL CAN returns the documented recogniser to ground from every state),
        // then RIS and a sentinel that must be drawn at the origin
        let r = sys.try_apply(&Op::Feed("\x07\x07\x18\x1bcS".into()));
        if let Err(p) = r {
            cx.violation(Viol { prop: "C01".into(), clause: "panic".into(), op: "probe".into(), bucket: panic_sig(&p), detail: format!("further input after the case panicked: {} at {}", p.msg, p.loc), case: mk(ops.len()) });
            return;
        }
        let s = sys.snap();
        if s.grid[0][0].text != "S" {
            cx.violation(Viol {
                prop: "C01".into(),
                clause: "wedge".into(),
                op: "probe".into(),
                bucket: format!("{:?}", pk),
                detail: format!("after the input, BEL BEL CAN ESC c S did not draw the sentinel: row 0 = {:?} cursor=({},{})", s.row_text(0), s.cx, s.cy),
                case: mk(ops.len()),
            });
        }
    } else {
        let r = sys.try_apply(&Op::Api(Call::Reset)).and_then(|_| sys.try_apply(&Op::Api(Call::Draw("S".into()))));
        if let Err(p) = r {
            cx.violation(Viol { prop: "C01".into(), clause: "panic".into(), op: "probe".into(), bucket: panic_sig(&p), detail: format!("reset+draw after the case panicked: {} at {}", p.msg, p.loc), case: mk(ops.len()) });
        }
    }
    cx.stats.sample(&key, 12, || json!({"geometry": format!("{}x{}", c, l), "parser": format!("{:?}", pk), "ops": ops.iter().take(6).map(|o| format!("{:?}", o)).collect::<Vec<_>>(), "n_ops": ops.len()}));
}

fn chunk_chars(rng: &mut Rng, s: &str) -> Vec<Op> {
    let v: Vec<char> = s.chars().collect();
    match rng.below(3) {
        0 => vec![Op::Feed(s.to_string())],
        1 => v.iter().map(|c| Op::Feed(c.to_string())).collect(),
        _ => {
            let k = 1 + rng.usize(5);
            let cuts = gen::random_cuts(rng, v.len(), k);
            gen::cut_chars(&v, &cuts).into_iter().map(Op::Feed).collect()
        }
    }
}

fn chunk_bytes(rng: &mut Rng, b: &[u8]) -> Vec<Op> {
    match rng.below(3) {
        0 => vec![Op::FeedBytes(b.to_vec())],
        1 => b.iter().map(|x| Op::FeedBytes(vec![*x])).collect(),
        _ => {
            let k = 1 + rng.usize(5);
            let cuts = gen::random_cuts(rng, b.len(), k);
            gen::cut_bytes(b, &cuts).into_iter().map(Op::FeedBytes).collect()
        }
    }
}

impl Check for C01Check {
    fn id(&self) -> &'static str {
        "C01"
    }
    fn rule(&self) -> String {
        "return-vs-unwind of every Parser::feed / ByteParser::feed / Screen listener method / resize / display call in an overflow-checked, debug-assertion build, each case in a worker process whose abort / signal / stall is attributed to the journalled case group and re-run alone three times before it counts; after every case a liveness probe (display() returns `lines` rows; BEL BEL CAN ESC c + sentinel must draw the sentinel at the origin). Workloads: (a) generated sessions and hostile mutations as chars and as bytes, UTF-8 and 8-bit, whole / unit-at-a-time / random chunkings; (b) all strings <= 3 (quick) / 4 over the 73-character class alphabet from every recogniser state; (c) raw random bytes and all 2-byte strings; (d) API call sequences with arguments absent or in 0..=9999 with display() and resize interleaved; (e) the seven captured sessions; geometries incl. 1x1, 1xN, Nx1 up to 140x40 and DECCOLM. distinct = (workload, parser kind, geometry class); non-trivial = at least one listener call was made".into()
    }
    fn assumptions(&self) -> Vec<String> {
        let mut a: Vec<String> = COMMON_ASSUMPTIONS.iter().map(|s| s.to_string()).collect();
        a.push("'no unbounded loop' is restated as bounded progress: every case group returns within the watchdog; a stall only counts after three isolated re-runs".into());
        a.push("sanitizers see only the paths the workloads drive; Miri cannot run the coroutine (FFI), so its slice is Screen-API only".into());
        a
    }
    fn required(&self, _t: Tier) -> Vec<&'static str> {
        vec!["case-run", "liveness-probe"]
    }
    fn shard(&self, cx: &mut Ctx) {
        let quick = cx.quick();
        // (e) captured sessions
        let names = ["cat-gpl3", "find-etc", "htop", "ls", "mc", "top", "vi"];
        let repo = std::env::var("VERIF_REPO").unwrap_or_else(|_| "/repo".into());
        if (cx.shard as usize) < names.len() && cx.begin_group("captured") {
            if let Ok(data) = std::fs::read(format!("{}/assets/captured/{}.input", repo, names[cx.shard as usize])) {
                let mut rng = cx.rng.fork(2);
                for (c, l) in [(80u32, 24u32), (20, 5), (1, 1), (132, 10)] {
                    let ops = chunk_bytes(&mut rng, &data);
                    if ops.len() < 20000 {
                        c01_case(cx, c, l, PK::Bytes, &ops, "captured");
                    } else {
                        c01_case(cx, c, l, PK::Bytes, &[Op::FeedBytes(data.clone())], "captured");
                    }
                }
                cx.stats.count("captured_sessions", 1);
            }
        }
        // (b) class-alphabet strings from every recogniser state (prefix puts the parser there)
        let prefixes = ["", "\x1b", "\x1b#", "\x1b%", "\x1b(", "\x1b[", "\x1b[1;", "\x1b[?1$", "\x1b]", "\x1b]0", "\x1b]0;t", "\x1b]0;t\x1b", "\u{9b}", "\u{9d}"];
        let maxlen = if quick { 2 } else { 3 };
        let mut idx = 0u64;
        let mut complete = true;
        'outer: for p in prefixes {
            for a in ALPHABET {
                idx += 1;
                if !cx.mine(idx) {
                    continue;
                }
                if cx.used() > 0.45 || cx.out_of_time() {
                    complete = false;
                    break 'outer;
                }
                if !cx.begin_group(&format!("alphabet {:?}{:?}", p, a)) {
                    continue;
                }
                let mut stack: Vec<String> = vec![format!("{}{}", p, a)];
                while let Some(s) = stack.pop() {
                    let geom = if idx % 2 == 0 { (3, 2) } else { (1, 1) };
                    c01_case(cx, geom.0, geom.1, PK::Chars, &[Op::Feed(s.clone())], "alphabet");
                    c01_case(cx, geom.0, geom.1, PK::Bytes, &[Op::Charset("@".into()), Op::Feed(s.clone())], "alphabet-8bit");
                    if s.chars().count() - p.chars().count() < maxlen {
                        for b in ALPHABET {
                            stack.push(format!("{}{}", s, b));
                        }
                    }
                }
            }
        }
        if complete {
            cx.stats.exhaustive_parts.insert(format!("all strings of length <= {} over the 73-character class alphabet after each of {} state-setting prefixes, Parser (UTF-8) and ByteParser (8-bit)", maxlen, prefixes.len()));
        }
        // (b') every sequence of the grammar pool cut at every position and fed unit by unit:
        // state carried across feed() calls (coroutine position, decoder, locks)
        if cx.begin_group("pool sequences x cuts") {
            let pool = crate::checks::parsing::seq_pool();
            for (i, s) in pool.iter().enumerate() {
                if !cx.mine(i as u64) {
                    continue;
                }
                let full = format!("{}ok", s);
                let b = full.as_bytes();
                for k in 1..b.len() {
                    let ops = vec![Op::FeedBytes(b[..k].to_vec()), Op::FeedBytes(b[k..].to_vec())];
                    c01_case(cx, 6, 2, PK::Bytes, &ops, "pool-2way");
                    if k % 2 == 0 {
                        let mut o8 = vec![Op::Charset("@".into())];
                        o8.extend(ops.iter().cloned());
                        c01_case(cx, 6, 2, PK::Bytes, &o8, "pool-2way-8bit");
                    }
                }
                let unit: Vec<Op> = b.iter().map(|x| Op::FeedBytes(vec![*x])).collect();
                c01_case(cx, 6, 2, PK::Bytes, &unit, "pool-bytewise");
                let chars: Vec<Op> = full.chars().map(|c| Op::Feed(c.to_string())).collect();
                c01_case(cx, 6, 2, PK::Chars, &chars, "pool-charwise");
                // a mode switch at every cut
                for k in 1..b.len().min(6) {
                    let ops = vec![Op::FeedBytes(b[..k].to_vec()), Op::Charset("@".into()), Op::FeedBytes(b[k..].to_vec()), Op::Charset("G".into()), Op::Feed("z".into())];
                    c01_case(cx, 6, 2, PK::Bytes, &ops, "pool-switch");
                }
            }
            cx.stats.exhaustive_parts.insert(format!("every 2-way byte cut, byte-at-a-time and char-at-a-time feeding of {} pool sequences (+ sentinel text), UTF-8 and 8-bit, with a mode switch at the first cuts", pool.len()));
        }
        // (b0) all 16 777 216 true colours through the API: no panic (the value check is C08's)
        if cx.begin_group("truecolour sweep") {
            use memterm::parser_listener::ParserListener;
            let mut scr = memterm::screen::Screen::new(2, 1);
            let mut complete = true;
            for r in 0..256u32 {
                if !cx.mine(r as u64) {
                    continue;
                }
                for g in 0..256u32 {
                    let res = catch(|| {
                        for b in 0..256u32 {
                            scr.select_graphic_rendition(&[if b % 2 == 0 { 38 } else { 48 }, 2, r, g, b]);
                        }
                    });
                    cx.stats.evaluations += 256;
                    if res.is_err() {
                        // find the exact triple with the full monitor
                        for b in 0..256u32 {
                            c01_case(cx, 2, 1, PK::None, &[Op::Api(Call::Sgr(vec![if b % 2 == 0 { 38 } else { 48 }, 2, r, g, b]))], "truecolour");
                        }
                        scr = memterm::screen::Screen::new(2, 1);
                    }
                }
                if cx.used() > 0.5 || cx.out_of_time() {
                    complete = false;
                    break;
                }
            }
            if complete {
                cx.stats.exhaustive_parts.insert("all 16 777 216 colours 38|48;2;r;g;b through the API (no panic)".into());
            }
        }
        // (b+) all ordered pairs of the sequences that other terminals implement (title stack,
        // reports, SGR stack, alternate screen ...) and of the OSC strings: state that one leaves
        // behind in the recogniser for the other to trip over
        if cx.begin_group("pool pairs") {
            let pool = crate::checks::parsing::seq_pool();
            let sub: Vec<&String> = pool.iter().filter(|s| s.contains(']') || s.contains('\u{9d}') || s.ends_with('t') || s.ends_with('s') || s.ends_with('u')).chain(pool.iter().skip(pool.len().saturating_sub(55))).collect();
            let mut k = 0u64;
            for a in &sub {
                for b in &sub {
                    k += 1;
                    if !cx.mine(k) {
                        continue;
                    }
                    c01_case(cx, 6, 2, if k % 2 == 0 { PK::Chars } else { PK::Bytes }, &[Op::Feed(format!("{}{}ok", a, b))], "pool-pair");
                }
            }
            cx.stats.exhaustive_parts.insert(format!("all {} ordered pairs of {} pool sequences (OSC strings, window / title-stack operations, sequences implemented elsewhere)", sub.len() * sub.len(), sub.len()));
        }
        // (b'') extremes of length: parameter lists, digit runs, payloads and text runs far longer
        // than any real program sends (stack growth per element, caps, counters)
        if cx.begin_group("long lists, runs and payloads") {
            let mut k = 0u64;
            for n in [100usize, 128, 255, 256, 257, 1000, 5000, 70000] {
                for f in ["m", "H", "r", "h", "l", "J", "K", "g", "A", "P", "@", "L", "X", "d"] {
                    for val in ["", "0", "1", "38", "9999"] {
                        k += 1;
                        if !cx.mine(k) {
                            continue;
                        }
                        let list = vec![val; n].join(";");
                        for s in [format!("\x1b[{}{}ok", list, f), format!("\x1b[{};1{}ok", list, f), format!("\x1b[?{}{}ok", list, f)] {
                            c01_case(cx, 6, 3, if k % 2 == 0 { PK::Chars } else { PK::Bytes }, &[Op::Feed(s)], "long-list");
                        }
                    }
                }
                k += 1;
                if cx.mine(k) {
                    let z = "0".repeat(n);
                    c01_case(cx, 6, 3, PK::Chars, &[Op::Feed(format!("\x1b[{}3g\x1b[{}1;{}2H\x1b]2;{}\x07ok", z, z, z, "t".repeat(n)))], "long-run");
                    c01_case(cx, 6, 3, PK::Bytes, &[Op::Feed(format!("{}\r\n{}", "w".repeat(n), "\u{65e5}".repeat(n)))], "long-run");
                    let calls: Vec<Op> = (0..n.min(20000)).map(|_| Op::Api(Call::SaveCursor)).chain((0..n.min(20000) + 1).map(|_| Op::Api(Call::RestoreCursor))).collect();
                    c01_case(cx, 6, 3, PK::None, &calls, "deep-save");
                }
            }
            cx.stats.exhaustive_parts.insert("parameter lists of 8 lengths (100..70000) x 14 finals x 5 values x 3 shapes; zero padding, OSC payloads, text runs and DECSC nesting of the same lengths".into());
        }
        // (c) all 2-byte strings
        if cx.begin_group("two-byte strings") {
            for a in 0..=255u32 {
                if !cx.mine(a as u64) {
                    continue;
                }
                for b in 0..=255u32 {
                    c01_case(cx, 2, 2, PK::Bytes, &[Op::FeedBytes(vec![a as u8, b as u8])], "two-bytes");
                    if b % 16 == 0 {
                        c01_case(cx, 2, 2, PK::Bytes, &[Op::FeedBytes(vec![a as u8]), Op::FeedBytes(vec![b as u8])], "two-bytes-split");
                    }
                }
            }
            cx.stats.exhaustive_parts.insert("all 65536 two-byte strings through ByteParser (UTF-8)".into());
        }
        // (a), (c), (d) random workloads until the budget is used
        while !cx.out_of_time() {
            let (c, l) = gen::pick_geom(&mut cx.rng, Tier::Thorough);
            let mut rng = cx.rng.fork(4);
            if !cx.begin_group(&format!("random {}x{}", c, l)) {
                if cx.past_only_group() {
                    break;
                }
                continue;
            }
            cx.stats.geoms.insert(format!("{}x{}", c, l));
            let big = c * l > 1000;
            for _ in 0..if big { 4 } else { 24 } {
                // a state of the zoo (pending wrap on written and unwritten rows, headless halves of
                // wide characters, sparse rows, regions, modes ...) and then a short tail of draws
                // (combining marks, wide, mixed API strings) and API calls
                if !big && rng.below(5) == 0 {
                    let mut ops = gen::setup(&mut rng, c, l, &gen::Profile { wide: 10, pending_wrap: 35, ..Default::default() });
                    for _ in 0..1 + rng.below(5) {
                        ops.push(match rng.below(5) {
                            0 => Op::Api(Call::Draw(rng.pick(&gen::COMBINING).to_string())),
                            1 => Op::Api(Call::Draw(gen::mixed_api_string(&mut rng))),
                            2 => Op::Api(Call::Draw(rng.pick(&gen::WIDE).to_string())),
                            3 => Op::Feed(gen::text_run(&mut rng, 4)),
                            _ => Op::Api(gen::api_call(&mut rng, c, l)),
                        });
                    }
                    c01_case(cx, c, l, PK::Chars, &ops, "zoo-tail");
                    continue;
                }
                match rng.below(7) {
                    0 => {
                        let units = 1 + rng.usize(if big { 30 } else { 80 });
                        let s = gen::session(&mut rng, c, l, units);
                        let ops = chunk_chars(&mut rng, &s);
                        c01_case(cx, c, l, PK::Chars, &ops, "session");
                    }
                    1 => {
                        let nu = 1 + rng.usize(30);
                        let s = gen::session(&mut rng, c, l, nu);
                        let m = gen::mutate(&mut rng, &s);
                        let ops = chunk_chars(&mut rng, &m);
                        c01_case(cx, c, l, PK::Chars, &ops, "hostile-chars");
                    }
                    2 => {
                        let nu = 1 + rng.usize(30);
                        let s = gen::session(&mut rng, c, l, nu);
                        let b = gen::mutate_bytes(&mut rng, &s);
                        let mut ops = Vec::new();
                        if rng.below(3) == 0 {
                            ops.push(Op::Charset("@".into()));
                        }
                        ops.extend(chunk_bytes(&mut rng, &b));
                        if rng.below(4) == 0 {
                            ops.insert(rng.usize(ops.len() + 1), Op::Charset((*rng.pick(&["@", "G", "8"])).into()));
                        }
                        c01_case(cx, c, l, PK::Bytes, &ops, "hostile-bytes");
                    }
                    3 => {
                        let n = 1 + rng.usize(64);
                        let b: Vec<u8> = (0..n).map(|_| rng.below(256) as u8).collect();
                        let ops = chunk_bytes(&mut rng, &b);
                        c01_case(cx, c, l, PK::Bytes, &ops, "random-bytes");
                    }
                    4 => {
                        // API call sequences with display() and resize interleaved
                        let n = 1 + rng.usize(if big { 40 } else { 200 });
                        let mut ops = Vec::new();
                        for _ in 0..n {
                            match rng.below(20) {
                                0 => ops.push(Op::Api(Call::Resize(Some(rng.range(1, 142)).filter(|_| rng.below(4) != 0), Some(rng.range(1, 142)).filter(|_| rng.below(4) != 0)))),
                                1 => ops.push(Op::Api(Call::Display)),
                                2 => {
                                    // arguments anywhere in 0..=9999
                                    let v = rng.range(0, 9999);
                                    let call = match rng.below(12) {
                                        0 => Call::CursorUp(Some(v)),
                                        1 => Call::CursorDown(Some(v)),
                                        2 => Call::CursorForward(Some(v)),
                                        3 => Call::CursorBack(Some(v)),
                                        4 => Call::InsertLines(Some(v)),
                                        5 => Call::DeleteLines(Some(v)),
                                        6 => Call::InsertCharacters(Some(v)),
                                        7 => Call::DeleteCharacters(Some(v)),
                                        8 => Call::EraseCharacters(Some(v)),
                                        9 => Call::CursorPosition(Some(v), Some(rng.range(0, 9999))),
                                        10 => Call::SetMargins(Some(v), Some(rng.range(0, 9999))),
                                        _ => Call::Sgr(vec![v, rng.range(0, 9999), rng.range(0, 9999)]),
                                    };
                                    ops.push(Op::Api(call));
                                }
                                _ => ops.push(Op::Api(gen::api_call(&mut rng, c, l))),
                            }
                        }
                        c01_case(cx, c, l, PK::None, &ops, "api");
                    }
                    5 => {
                        let n = 1 + rng.usize(if big { 10 } else { 40 });
                        let ops = mixed_history(&mut rng, c, l, n, false);
                        c01_case(cx, c, l, PK::Bytes, &ops, "mixed");
                    }
                    _ => {
                        // floods
                        let ch = *rng.pick(&['a', '\n', '\x1b', 'コ', '\u{0308}', ';', '9', '\t', '\u{9b}']);
                        let n = if quick { 5_000 } else { 100_000 };
                        let s: String = std::iter::repeat(ch).take(n).collect();
                        c01_case(cx, c.min(40), l.min(12), PK::Chars, &[Op::Feed(s)], "flood");
                    }
                }
            }
        }
    }
    fn replay(&self, case: &Case, cx: &mut Ctx) {
        c01_case(cx, case.columns, case.lines, case.pk, &case.ops, "replay");
    }
}
