//! C20 - character-set translation (G0/G1, SO/SI, DEC graphics, CP437, VAX42): exhaustive over
//! 256 code points x 4 tables x {G0,G1} x {SI,SO}; observation is the text of the cell written
//! by draw(), compared with golden tables produced independently of the repository.

use serde_json::json;
use unicode_width::UnicodeWidthChar;

use crate::call::Call;
use crate::checks::{Check, COMMON_ASSUMPTIONS};
use crate::core::{Case, Ctx, Tier, Viol};
use crate::engine::{fan_out, reach, Cand, Own};
use crate::gen::{self, Profile};
use crate::snapshot::{nfc, Table};
use crate::sys::{panic_sig, Op, Sys, PK};

pub struct C20Check;
pub static C20: C20Check = C20Check;

fn owns(c: &Call, _s: &crate::snapshot::Snap) -> Own {
    if c.owner() == "C20" {
        Own::Full
    } else {
        Own::No
    }
}

/// run `prefix`, then for every probe: home + erase line, `probe` op, read cell (0,0)
fn probe_cells(cx: &mut Ctx, pk: PK, prefix: &[Op], probes: &[(Op, String, String)], clause: &'static str, bucket: &str, label: &str) {
    // probes: (op, expected cell text, description)
    let mut sys = Sys::new(4, 2, pk);
    sys.set_recording(false, false);
    let mk = |upto: Option<&Op>| {
        let mut case = Case::new("C20", "probe", 4, 2, pk);
        case.setup = prefix.to_vec();
        if let Some(o) = upto {
            case.ops = vec![o.clone()];
        }
        case.aux = json!({ "clause": clause, "bucket": bucket });
        case
    };
    for op in prefix {
        if let Err(p) = sys.try_apply(op) {
            cx.violation(Viol { prop: "C20".into(), clause: "panic".into(), op: "setup".into(), bucket: panic_sig(&p), detail: format!("{}: {:?} panicked: {} at {}", label, op, p.msg, p.loc), case: mk(None) });
            return;
        }
    }
    for (op, want, desc) in probes {
        // position + blank through the API (not subject to translation)
        let _ = sys.try_apply(&Op::Api(Call::CursorPosition(Some(1), Some(1))));
        let _ = sys.try_apply(&Op::Api(Call::EraseInLine(Some(2))));
        let r = sys.try_apply(op);
        cx.stats.clause(clause);
        cx.stats.eval(&format!("{}|{}|{}", clause, bucket, desc.split('=').next().unwrap_or("")), true);
        if let Err(p) = r {
            cx.violation(Viol { prop: "C20".into(), clause: "panic".into(), op: "draw".into(), bucket: panic_sig(&p), detail: format!("{} {}: panic {} at {}", label, desc, p.msg, p.loc), case: mk(Some(op)) });
            return;
        }
        let got = sys.snap().grid[0][0].text.clone();
        if nfc(&got) != nfc(want) {
            cx.violation(Viol {
                prop: "C20".into(),
                clause: clause.into(),
                op: "draw".into(),
                bucket: bucket.to_string(),
                detail: format!("{}: {} -> cell shows {:?}, expected {:?}", label, desc, got, want),
                case: mk(Some(op)),
            });
        }
    }
}

/// what the cell must show after drawing translated character `t` onto a blank cell
fn shown(t: char) -> String {
    match t.width().unwrap_or(0) {
        0 => " ".to_string(), // zero-width / unprintable: nothing drawn (combining marks attach elsewhere)
        _ => t.to_string(),
    }
}

const CODES: [(&str, Table); 4] = [("B", Table::Lat1), ("0", Table::Vt100), ("U", Table::IbmPc), ("V", Table::Vax42)];

/// bytes that the recogniser hands to draw() in ground state (everything that is not special)
fn drawable_byte(b: u8) -> bool {
    !matches!(b, 0x07..=0x0f | 0x1b | 0x9b | 0x9d)
}

fn c20_enumerated(cx: &mut Ctx) {
    let mut idx = 0u64;
    // (1) API: 4 tables x {G0,G1} x {SI,SO} x 256 code points
    for (code, table) in CODES {
        for slot in ["(", ")"] {
            for (shifted_out, order) in [(false, 0), (true, 0), (false, 1), (true, 1), (false, 2), (true, 2)] {
                idx += 1;
                if !cx.mine(idx) || !cx.begin_group(&format!("api {} {} so={} order={}", code, slot, shifted_out, order)) {
                    continue;
                }
                // the same final state reached in three orders: designate then shift; shift then
                // designate (into a slot that may already be in use); another set designated first,
                // shift, then the designation replaced while the slot is in use
                let define = Op::Api(Call::DefineCharset(code.into(), slot.into()));
                let shift = Op::Api(if shifted_out { Call::ShiftOut } else { Call::ShiftIn });
                let other = Op::Api(Call::DefineCharset(if code == "B" { "0" } else { "B" }.into(), slot.into()));
                let prefix = match order {
                    0 => vec![define, shift],
                    1 => vec![shift, define],
                    _ => vec![other, shift, define],
                };
                // active table: the designated one if its slot is the active slot, else the default of the active slot
                let active = match (slot, shifted_out) {
                    ("(", false) | (")", true) => table,
                    (_, false) => Table::Lat1,
                    (_, true) => Table::Vt100,
                };
                let chars = active.chars().unwrap();
                let probes: Vec<(Op, String, String)> = (0..256u32)
                    .map(|cp| {
                        let ch = char::from_u32(cp).unwrap();
                        (Op::Api(Call::Draw(ch.to_string())), shown(chars[cp as usize]), format!("cp=0x{:02x}", cp))
                    })
                    .collect();
                probe_cells(cx, PK::None, &prefix, &probes, "table", &format!("{}{}|so={}|ord={}", slot, code, shifted_out, order), "API");
                // translation is per code point: a character above 255 in the same draw() call must
                // not switch it off for its neighbours
                let mixed: Vec<(Op, String, String)> = [0x5fu32, 0x61, 0x71, 0x7e, 0xe9, 0x6a]
                    .iter()
                    .map(|cp| {
                        let ch = char::from_u32(*cp).unwrap();
                        (Op::Api(Call::Draw(format!("{}{}z", ch, '\u{2502}'))), shown(chars[*cp as usize]), format!("mixed cp=0x{:02x}", cp))
                    })
                    .collect();
                probe_cells(cx, PK::None, &prefix, &mixed, "table", &format!("{}{}|so={}|mixed", slot, code, shifted_out), "API, mixed string");
                // code points above 255 pass through untranslated
                let hi: Vec<(Op, String, String)> = ['\u{100}', 'ж', '│', '\u{2592}', 'Ω']
                    .iter()
                    .map(|c| (Op::Api(Call::Draw(c.to_string())), c.to_string(), format!("above255={:?}", c)))
                    .collect();
                probe_cells(cx, PK::None, &prefix, &hi, "above-255", &format!("{}{}", slot, code), "API");
            }
        }
    }
    // (2) defaults after construction and after RIS: G0 Latin-1, G1 DEC graphics
    for (pi, prefix) in [vec![], vec![Op::Api(Call::DefineCharset("U".into(), "(".into())), Op::Api(Call::DefineCharset("V".into(), ")".into())), Op::Api(Call::ShiftOut), Op::Api(Call::Reset)]].iter().enumerate() {
        for shifted_out in [false, true] {
            idx += 1;
            if !cx.mine(idx) || !cx.begin_group("defaults") {
                continue;
            }
            let mut p = prefix.clone();
            if shifted_out {
                p.push(Op::Api(Call::ShiftOut));
            }
            let chars = if shifted_out { Table::Vt100 } else { Table::Lat1 }.chars().unwrap();
            let probes: Vec<(Op, String, String)> = (0..256u32)
                .map(|cp| (Op::Api(Call::Draw(char::from_u32(cp).unwrap().to_string())), shown(chars[cp as usize]), format!("cp=0x{:02x}", cp)))
                .collect();
            probe_cells(cx, PK::None, &p, &probes, "default-sets", &format!("after={}|so={}", if pi == 0 { "new" } else { "RIS" }, shifted_out), "API");
        }
    }
    // (3) every designator final 0x30..=0x7e: only B 0 U V change anything
    for slot in ["(", ")"] {
        idx += 1;
        if !cx.mine(idx) || !cx.begin_group("designators") {
            continue;
        }
        for f in 0x30u8..=0x7e {
            let code = (f as char).to_string();
            let expected_table = Table::for_code(&code);
            let base_slot_default = if slot == "(" { Table::Lat1 } else { Table::Vt100 };
            let active = expected_table.unwrap_or(base_slot_default);
            let chars = active.chars().unwrap();
            let mut prefix = vec![Op::Api(Call::DefineCharset(code.clone(), slot.into()))];
            if slot == ")" {
                prefix.push(Op::Api(Call::ShiftOut));
            }
            let probes: Vec<(Op, String, String)> = [0x01u32, 0x21, 0x61, 0x71, 0x7e, 0xe9]
                .iter()
                .map(|cp| (Op::Api(Call::Draw(char::from_u32(*cp).unwrap().to_string())), shown(chars[*cp as usize]), format!("final={:?} cp=0x{:02x}", f as char, cp)))
                .collect();
            probe_cells(cx, PK::None, &prefix, &probes, "designator", &format!("{}|supported={}", slot, expected_table.is_some()), "API");
            // and through the parser in 8-bit mode
            let mut pp = vec![Op::Charset("@".into()), Op::Feed(format!("\x1b{}{}", slot, code))];
            if slot == ")" {
                pp.push(Op::Feed("\x0e".into()));
            }
            let probes: Vec<(Op, String, String)> = [0x21u8, 0x61, 0x71, 0x7e, 0xe9]
                .iter()
                .map(|cp| (Op::FeedBytes(vec![*cp]), shown(chars[*cp as usize]), format!("final={:?} byte=0x{:02x}", f as char, cp)))
                .collect();
            probe_cells(cx, PK::Bytes, &pp, &probes, "designator", &format!("{}|supported={}|parser", slot, expected_table.is_some()), "ByteParser 8-bit");
        }
    }
    // (4) parser, 8-bit mode: ESC ( x / ESC ) x, SO, SI, every drawable byte
    for (code, table) in CODES {
        for slot in ["(", ")"] {
            for shifted_out in [false, true] {
                idx += 1;
                if !cx.mine(idx) || !cx.begin_group(&format!("parser {} {} so={}", code, slot, shifted_out)) {
                    continue;
                }
                let prefix = vec![Op::Charset("@".into()), Op::Feed(format!("\x1b{}{}{}", slot, code, if shifted_out { "\x0e" } else { "\x0f" }))];
                let active = match (slot, shifted_out) {
                    ("(", false) | (")", true) => table,
                    (_, false) => Table::Lat1,
                    (_, true) => Table::Vt100,
                };
                let chars = active.chars().unwrap();
                let probes: Vec<(Op, String, String)> = (0..=255u8)
                    .filter(|b| drawable_byte(*b))
                    .map(|b| (Op::FeedBytes(vec![b]), shown(chars[b as usize]), format!("byte=0x{:02x}", b)))
                    .collect();
                probe_cells(cx, PK::Bytes, &prefix, &probes, "table", &format!("{}{}|so={}|parser8", slot, code, shifted_out), "ByteParser 8-bit");
                // same sequences through Parser with UTF-8 off
                let prefix2 = vec![Op::Charset("@".into()), Op::Feed(format!("\x1b{}{}{}", slot, code, if shifted_out { "\x0e" } else { "\x0f" }))];
                let probes2: Vec<(Op, String, String)> = (0x20..=0xffu32)
                    .filter(|b| drawable_byte(*b as u8))
                    .map(|b| (Op::Feed(char::from_u32(b).unwrap().to_string()), shown(chars[b as usize]), format!("char=0x{:02x}", b)))
                    .collect();
                probe_cells(cx, PK::Chars, &prefix2, &probes2, "table", &format!("{}{}|so={}|parserchars", slot, code, shifted_out), "Parser 8-bit");
                // UTF-8 mode: shifts and designators are ignored
                let prefix3 = vec![Op::Feed(format!("\x1b{}{}{}", slot, code, if shifted_out { "\x0e" } else { "\x0f" }))];
                let probes3: Vec<(Op, String, String)> = [0x21u32, 0x5f, 0x61, 0x71, 0x7e, 0xe9, 0xb0]
                    .iter()
                    .map(|b| {
                        let ch = char::from_u32(*b).unwrap();
                        (Op::Feed(ch.to_string()), shown(ch), format!("utf8 char=0x{:02x}", b))
                    })
                    .collect();
                probe_cells(cx, PK::Chars, &prefix3, &probes3, "utf8-not-ignored", &format!("{}{}|so={}", slot, code, shifted_out), "Parser UTF-8");
                probe_cells(cx, PK::Bytes, &prefix3, &probes3, "utf8-not-ignored", &format!("{}{}|so={}|bytes", slot, code, shifted_out), "ByteParser UTF-8");
            }
        }
    }
    // (4b) UTF-8 mode with G1 already active (selected through the API, or in 8-bit mode before the
    // switch to UTF-8): SI / SO / designators must still be ignored, G1 keeps translating
    for route in 0..2 {
        for (code, table) in CODES {
            idx += 1;
            if !cx.mine(idx) || !cx.begin_group(&format!("utf8 with G1 active {} route {}", code, route)) {
                continue;
            }
            let chars = table.chars().unwrap();
            let probes: Vec<(Op, String, String)> = [0x21u32, 0x5f, 0x61, 0x71, 0x7e]
                .iter()
                .map(|b| (Op::Feed(char::from_u32(*b).unwrap().to_string()), shown(chars[*b as usize]), format!("g1-active utf8 char=0x{:02x}", b)))
                .collect();
            for ctl in ["\x0f", "\x0e", "\x1b(0", "\x1b)B", "\x0f\x0f"] {
                let prefix = if route == 0 {
                    vec![Op::Api(Call::DefineCharset(code.into(), ")".into())), Op::Api(Call::ShiftOut), Op::Feed(ctl.to_string())]
                } else {
                    vec![Op::Charset("@".into()), Op::Feed(format!("\x1b){}\x0e", code)), Op::Charset("G".into()), Op::Feed(ctl.to_string())]
                };
                probe_cells(cx, PK::Chars, &prefix, &probes, "utf8-not-ignored", &format!("g1-active|{}|route{}", code, route), "Parser UTF-8, G1 active");
                probe_cells(cx, PK::Bytes, &prefix, &probes, "utf8-not-ignored", &format!("g1-active|{}|route{}|bytes", code, route), "ByteParser UTF-8, G1 active");
            }
        }
    }
    // (4c) SO / SI arriving inside an open control sequence are not shifts: the sequence ends
    // (unknown final) and the active set stays what it was - 8-bit and UTF-8 mode
    for eight_bit in [true, false] {
        for start_g1 in [false, true] {
            idx += 1;
            if !cx.mine(idx) || !cx.begin_group("shift inside CSI") {
                continue;
            }
            let active = if start_g1 { Table::Vt100 } else { Table::Lat1 };
            let chars = active.chars().unwrap();
            let probes: Vec<(Op, String, String)> = [0x5fu32, 0x61, 0x71, 0x7e]
                .iter()
                .map(|b| (Op::Feed(char::from_u32(*b).unwrap().to_string()), shown(chars[*b as usize]), format!("shift-in-csi char=0x{:02x}", b)))
                .collect();
            for ctl in ["\x1b[\x0e", "\x1b[\x0f", "\x1b[1;2\x0e", "\u{9b}?\x0f", "\x1b[\x0e\x1b[\x0f", "\x1b]0;t\x0e\x07"] {
                let mut prefix: Vec<Op> = Vec::new();
                if eight_bit {
                    prefix.push(Op::Charset("@".into()));
                }
                if start_g1 {
                    prefix.push(Op::Api(Call::ShiftOut));
                }
                prefix.push(Op::Feed(ctl.to_string()));
                probe_cells(cx, PK::Chars, &prefix, &probes, "shift-in-sequence", &format!("8bit={}|g1={}", eight_bit, start_g1), "Parser");
            }
        }
    }
    // (5) save / restore of the charset state
    idx += 1;
    if cx.mine(idx) && cx.begin_group("save-restore") {
        let prefix = vec![
            Op::Api(Call::DefineCharset("U".into(), "(".into())),
            Op::Api(Call::SaveCursor),
            Op::Api(Call::DefineCharset("0".into(), "(".into())),
            Op::Api(Call::ShiftOut),
            Op::Api(Call::RestoreCursor),
        ];
        let chars = Table::IbmPc.chars().unwrap();
        let probes: Vec<(Op, String, String)> = [0x01u32, 0x7f, 0xb0, 0xdb, 0x71]
            .iter()
            .map(|cp| (Op::Api(Call::Draw(char::from_u32(*cp).unwrap().to_string())), shown(chars[*cp as usize]), format!("restored cp=0x{:02x}", cp)))
            .collect();
        probe_cells(cx, PK::None, &prefix, &probes, "save-restore", "-", "API");
    }
    // (6) DECRC straight after the slot IN USE was re-designated under the savepoint (round 13):
    // every (G0, G1, shift) at DECSC x one or two re-designations x an optional shift, DECRC, and
    // the draw follows at once - a "the set in use is Latin-1" memo that only a shift or a
    // designation refreshes must not survive the restore
    for (c0, t0) in CODES {
        for (c1, t1) in CODES {
            for so in [false, true] {
                idx += 1;
                if !cx.mine(idx) || !cx.begin_group(&format!("save-redesignate-restore {} {} so={}", c0, c1, so)) {
                    continue;
                }
                let active = if so { t1 } else { t0 };
                let chars = active.chars().unwrap();
                let probes: Vec<(Op, String, String)> = [0x5fu32, 0x71, 0x7e, 0xb0, 0xe9, 0x01]
                    .iter()
                    .map(|cp| (Op::Api(Call::Draw(char::from_u32(*cp).unwrap().to_string())), shown(chars[*cp as usize]), format!("restored cp=0x{:02x}", cp)))
                    .collect();
                let mut mids: Vec<Vec<Op>> = Vec::new();
                for (d1, _) in CODES {
                    for s1 in ["(", ")"] {
                        let a = Op::Api(Call::DefineCharset(d1.into(), s1.into()));
                        mids.push(vec![a.clone()]);
                        for (d2, _) in CODES {
                            for s2 in ["(", ")"] {
                                mids.push(vec![a.clone(), Op::Api(Call::DefineCharset(d2.into(), s2.into()))]);
                            }
                        }
                    }
                }
                for mid in &mids {
                    for tail in 0..3 {
                        let mut prefix = vec![
                            Op::Api(Call::DefineCharset(c0.into(), "(".into())),
                            Op::Api(Call::DefineCharset(c1.into(), ")".into())),
                            Op::Api(if so { Call::ShiftOut } else { Call::ShiftIn }),
                            Op::Api(Call::SaveCursor),
                        ];
                        prefix.extend(mid.iter().cloned());
                        match tail {
                            1 => prefix.push(Op::Api(Call::ShiftIn)),
                            2 => prefix.push(Op::Api(Call::ShiftOut)),
                            _ => {}
                        }
                        prefix.push(Op::Api(Call::RestoreCursor));
                        probe_cells(cx, PK::None, &prefix, &probes, "save-restore", &format!("(={}|)={}|so={}|tail={}", c0, c1, so, tail), "API");
                    }
                }
            }
        }
    }
    cx.stats.exhaustive_parts.insert("256 code points x 4 tables x {G0,G1} x {SI,SO} x 3 orders of designating and shifting (designate-shift, shift-designate, re-designate the slot in use) through Screen::draw; every drawable byte x the same 16 configurations through ByteParser and Parser in 8-bit mode; defaults after construction and RIS (256 x SI/SO); every designator final 0x30..=0x7e on both slots (API and parser); UTF-8 mode ignores shifts and designators; code points above 255; DECRC straight after one or two re-designations (+ optional shift) under the savepoint, from all 32 (G0, G1, shift) states".into());
}

fn c20_cands(rng: &mut crate::rng::Rng, _pre: &crate::snapshot::Snap, _t: Tier) -> Vec<Cand> {
    use Call::*;
    let mut v = Vec::new();
    for c in [ShiftIn, ShiftOut] {
        v.extend(Cand::both(c));
    }
    for _ in 0..6 {
        let code = *rng.pick(&["B", "0", "U", "V", "A", "K", "1", "<"]);
        let mode = *rng.pick(&["(", ")", "(", ")", "*"]);
        v.push(Cand::api(DefineCharset(code.into(), mode.into())));
    }
    // designate + shift + draw through the API: judged step by step (draw uses the golden table)
    for _ in 0..6 {
        let code = *rng.pick(&["B", "0", "U", "V"]);
        let mode = *rng.pick(&["(", ")"]);
        let s: String = (0..4).map(|_| char::from_u32(rng.range(0x20, 0xff)).unwrap()).filter(|c| !('\u{7f}'..='\u{9f}').contains(c)).collect();
        v.push(Cand { ops: vec![Op::Api(DefineCharset(code.into(), mode.into())), Op::Api(if rng.bool() { ShiftOut } else { ShiftIn }), Op::Api(Draw(s))] });
    }
    // DECSC, k designations, draw, DECRC, k designations, draw: counters, epochs or stamps that
    // are restored together with the tables must not make a later state look like an earlier one
    for _ in 0..4 {
        let k = 1 + rng.below(3);
        let des = |rng: &mut crate::rng::Rng| Op::Api(DefineCharset((*rng.pick(&["B", "0", "U", "V"])).into(), (*rng.pick(&["(", ")"])).into()));
        let mut ops = vec![Op::Api(SaveCursor)];
        for _ in 0..k {
            ops.push(des(rng));
        }
        if rng.below(3) == 0 {
            ops.push(Op::Api(if rng.bool() { ShiftOut } else { ShiftIn }));
        }
        let s: String = (0..2).map(|_| *rng.pick(&['q', 'x', '~', 'a', '\u{e9}', '_'])).collect();
        ops.push(Op::Api(Draw(s.clone())));
        ops.push(Op::Api(RestoreCursor));
        for _ in 0..k {
            ops.push(des(rng));
        }
        ops.push(Op::Api(Draw(s)));
        v.push(Cand { ops });
    }
    // DECSC, k designations [shift], DECRC and the draw at once (nothing refreshes a memo in between)
    for _ in 0..3 {
        let k = 1 + rng.below(2);
        let mut ops = vec![Op::Api(SaveCursor)];
        for _ in 0..k {
            ops.push(Op::Api(DefineCharset((*rng.pick(&["B", "0", "U", "V"])).into(), (*rng.pick(&["(", ")"])).into())));
        }
        if rng.below(3) == 0 {
            ops.push(Op::Api(if rng.bool() { ShiftOut } else { ShiftIn }));
        }
        ops.push(Op::Api(RestoreCursor));
        let s: String = (0..2).map(|_| *rng.pick(&['q', 'x', '~', 'a', '\u{e9}', '_', '\u{b0}'])).collect();
        ops.push(Op::Api(Draw(s)));
        v.push(Cand { ops });
    }
    // long strings in ONE draw() call (only the API can do that): all-ASCII including the C0
    // range, all below 256, and mixed with a character above 255 - whatever a bulk path keys on
    // (length, is_ascii, "printable"), each character still goes through the table in use
    for _ in 0..4 {
        let code = *rng.pick(&["B", "0", "U", "V"]);
        let mode = *rng.pick(&["(", ")"]);
        let n = *rng.pick(&[15usize, 16, 17, 31, 32, 33, 48]);
        let kind = rng.below(4);
        if kind == 3 {
            // composable pairs, singletons and conjoining jamo next to characters the set maps:
            // nothing may be composed, reordered or normalised BEFORE the table lookup
            let mut t = String::new();
            for _ in 0..3 + rng.usize(6) {
                match rng.below(4) {
                    0 => t.push_str(*rng.pick(&["a\u{301}", "e\u{301}", "q\u{308}", "\u{212b}", "\u{1112}\u{1161}\u{11ab}", "\u{1161}", "A\u{30a}", "\u{e9}"])),
                    1 => t.push(gen::uchar(rng)),
                    _ => t.push(char::from_u32(rng.range(0x20, 0xff)).unwrap()),
                }
            }
            v.push(Cand { ops: vec![Op::Api(DefineCharset(code.into(), mode.into())), Op::Api(if mode == ")" { ShiftOut } else { ShiftIn }), Op::Api(Draw(t))] });
            continue;
        }
        let s: String = (0..n)
            .map(|i| match kind {
                0 => char::from_u32(rng.range(0x01, 0x7f)).unwrap(),
                1 => char::from_u32(rng.range(0x01, 0xff)).unwrap(),
                _ => {
                    if i == n / 2 {
                        '\u{2502}'
                    } else {
                        char::from_u32(rng.range(0x01, 0xff)).unwrap()
                    }
                }
            })
            .collect();
        v.push(Cand { ops: vec![Op::Api(DefineCharset(code.into(), mode.into())), Op::Api(if mode == ")" { ShiftOut } else { ShiftIn }), Op::Api(Draw(s))] });
    }
    v
}

impl Check for C20Check {
    fn id(&self) -> &'static str {
        "C20"
    }
    fn rule(&self) -> String {
        "observation = text of the cell written by draw() for a code point under a designation/shift configuration, vs golden tables derived independently of the repository (Linux console GRAF_MAP for DEC graphics, Python's cp437 codec + the IBM glyph code points for CP437, CP437 + 8 Cyrillic substitutions for VAX42, identity for Latin-1); a translated character of width 0 must leave the cell blank. Finite domain enumerated completely (see exhaustive_subdomains); plus per-step judging of SO/SI/designations interleaved with other traffic from zoo states. distinct = (clause, configuration, probe class); every probe is non-trivial".into()
    }
    fn assumptions(&self) -> Vec<String> {
        let mut a: Vec<String> = COMMON_ASSUMPTIONS.iter().map(|s| s.to_string()).collect();
        a.push("golden tables: /verif/data/gen_tables.py (typed in from the Linux console maps and Python's cp437 codec; the 8 VAX42 substitutions are a trusted literal)".into());
        a
    }
    fn required(&self, _t: Tier) -> Vec<&'static str> {
        vec!["table", "default-sets", "designator", "utf8-not-ignored", "above-255", "shift-in-sequence"]
    }
    fn shard(&self, cx: &mut Ctx) {
        c20_enumerated(cx);
        // interleavings with other traffic
        let prof = Profile { charset8: 60, ..Default::default() };
        while !cx.out_of_time() {
            let (c, l) = gen::pick_geom(&mut cx.rng, cx.tier);
            let mut rng = cx.rng.fork(21);
            if !cx.begin_group(&format!("zoo {}x{}", c, l)) {
                if cx.past_only_group() {
                    break;
                }
                continue;
            }
            let setup = gen::setup(&mut rng, c, l, &prof);
            if let Some((base, pre)) = reach(cx, c, l, &setup) {
                let cands = c20_cands(&mut rng, &pre, cx.tier);
                let own_draw = |call: &Call, s: &crate::snapshot::Snap| -> Own {
                    match call {
                        Call::Draw(_) => Own::Only(&["cell"]),
                        _ => owns(call, s),
                    }
                };
                fan_out(cx, "C20", &own_draw, c, l, &setup, &base, &pre, &cands);
            }
            if cx.quick() && cx.used() > 0.5 {
                break;
            }
        }
    }
    fn replay(&self, case: &Case, cx: &mut Ctx) {
        if case.kind == "step" {
            let own_draw = |call: &Call, s: &crate::snapshot::Snap| -> Own {
                match call {
                    Call::Draw(_) => Own::Only(&["cell"]),
                    _ => owns(call, s),
                }
            };
            crate::engine::replay_step(cx, "C20", &own_draw, case);
            return;
        }
        // probe: recompute the expectation from the prefix is not possible in general; re-run the
        // enumerated part (cheap) and report what it finds
        c20_enumerated(cx);
    }
}
