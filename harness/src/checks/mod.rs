//! Check registry.

use crate::core::{Case, Ctx, Stats, Tier};
use crate::runner::RunOpts;

pub mod crash;
pub mod histories;
pub mod pairs;
pub mod parsing;
pub mod steps;
pub mod tables;

pub trait Check: Sync {
    fn id(&self) -> &'static str;
    /// how cases are generated and what makes one distinct / non-trivial (evidence `rule`)
    fn rule(&self) -> String;
    fn assumptions(&self) -> Vec<String>;
    /// clause / feature / counter names that must have been observed, else the run is inconclusive
    fn required(&self, _tier: Tier) -> Vec<&'static str> {
        vec![]
    }
    /// generate and execute this shard's share of the work
    fn shard(&self, cx: &mut Ctx);
    /// re-execute one recorded case under the same oracle
    fn replay(&self, case: &Case, cx: &mut Ctx);
    /// parent-side hook after merging
    fn finish(&self, _o: &RunOpts, _merged: &mut Stats, _inconclusive: &mut Vec<String>) {}
}

pub fn all() -> Vec<&'static dyn Check> {
    vec![
        &crash::C01,
        &parsing::C02,
        &parsing::C03,
        &steps::C04,
        &steps::C05,
        &steps::C06,
        &steps::C07,
        &steps::C08,
        &histories::C09,
        &pairs::C10,
        &parsing::C11,
        &steps::C12,
        &steps::C13,
        &steps::C14,
        &pairs::C15,
        &steps::C16,
        &histories::C17,
        &steps::C18,
        &parsing::C19,
        &tables::C20,
    ]
}

pub fn by_id(id: &str) -> Option<&'static dyn Check> {
    all().into_iter().find(|c| c.id() == id)
}

pub const COMMON_ASSUMPTIONS: [&str; 4] = [
    "observations are of the shipping (cfg(not(test))) code built from /repo's working tree with overflow-checks and debug-assertions on",
    "unicode-width / unicode-normalization (same versions memterm links) are trusted for width and combining class",
    "the reference semantics are a second implementation written from the property statements; corners the statements leave open are accepted either way (DESIGN §6 leniencies)",
    "held on the executions observed - not a proof",
];
