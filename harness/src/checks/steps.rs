//! The Hoare-style per-step checks (C04 C05 C06 C07 C08 C12 C13 C14 C16 C18): each is a workload
//! (enumerated states + state zoo, candidate operations through the API and through the parser)
//! around the shared engine; the oracle is `refsem::judge` on the implementation's own pre-state.

use crate::call::Call;
use crate::checks::{Check, COMMON_ASSUMPTIONS};
use crate::core::{Case, Ctx, Tier};
use crate::engine::{fan_out, reach, replay_step, Cand, Own};
use crate::gen::{self, params_all, Profile};
use crate::rng::Rng;
use crate::snapshot::Snap;
use crate::sys::Op;

pub struct StepCheck {
    pub id: &'static str,
    pub rule: &'static str,
    pub required: &'static [&'static str],
    pub owns: fn(&Call, &Snap) -> Own,
    pub profile: fn() -> Profile,
    /// candidates for a random zoo state
    pub cands: fn(&mut Rng, &Snap, Tier) -> Vec<Cand>,
    /// enumerated sub-domains (may be empty)
    pub enumerated: fn(&StepCheck, &mut Ctx),
    pub geom: fn(&mut Rng, Tier) -> (u32, u32),
}

impl Check for StepCheck {
    fn id(&self) -> &'static str {
        self.id
    }
    fn rule(&self) -> String {
        format!("{} distinct = (state bucket [geometry class, cursor-x class incl. pending wrap, cursor-y class vs region, margins, DECOM, DECAWM, IRM, LNM, DECSCNM, G1, blank cursor row, wide char near cursor, saved depth], operation, parameter class, path API/parser); non-trivial = the step changed the observable state or exercised a clamp/guard", self.rule)
    }
    fn assumptions(&self) -> Vec<String> {
        COMMON_ASSUMPTIONS.iter().map(|s| s.to_string()).collect()
    }
    fn required(&self, _t: Tier) -> Vec<&'static str> {
        self.required.to_vec()
    }
    fn shard(&self, cx: &mut Ctx) {
        (self.enumerated)(self, cx);
        let prof = (self.profile)();
        while !cx.out_of_time() {
            let (c, l) = (self.geom)(&mut cx.rng, cx.tier);
            let mut rng = cx.rng.fork(1);
            if !cx.begin_group(&format!("zoo {}x{}", c, l)) {
                if cx.past_only_group() {
                    break;
                }
                continue;
            }
            if rng.below(5) == 0 {
                // a long mixed history judged call by call (states reached by realistic traffic)
                let n = 5 + rng.usize(if c * l > 400 { 10 } else { 40 });
                let ops = crate::checks::histories::mixed_history(&mut rng, c, l, n, true);
                crate::engine::judge_session(cx, self.id, &self.owns, c, l, &ops);
                cx.stats.count("sessions", 1);
                continue;
            }
            let setup = gen::setup(&mut rng, c, l, &prof);
            if let Some((base, pre)) = reach(cx, c, l, &setup) {
                cx.stats.count("zoo_states", 1);
                let mut cands = (self.cands)(&mut rng, &pre, cx.tier);
                // "X, something else changes the state by its own route, the identical X again":
                // whatever an implementation remembers about the last request must not outlive
                // the state it was derived from (every call is still judged on its own pre-state)
                let n = cands.len();
                for _ in 0..n.min(6) {
                    let x = cands[rng.usize(n)].ops.clone();
                    if x.len() > 6 {
                        continue;
                    }
                    let mut ops = x.clone();
                    ops.extend(gen::perturbation(&mut rng, c, l));
                    ops.extend(x);
                    cands.push(Cand { ops });
                    cx.stats.count("echo_candidates", 1);
                }
                // counts that are a RELATION to the content rather than a constant: the distance
                // from the cursor to a stored glyph in its row (either side), to a row with content
                // (above / below), to the margins, each also +-1
                {
                    let (x, y) = (pre.cx.min(c - 1), pre.cy);
                    let mut ds: Vec<u32> = Vec::new();
                    if let Some(row) = pre.grid.get(y as usize) {
                        for k in 0..c {
                            if row.get(k as usize).map(|cell| cell.text != " ").unwrap_or(false) && k != x {
                                ds.push(if k > x { k - x } else { x - k });
                            }
                        }
                    }
                    for r in 0..l {
                        if r != y && pre.grid.get(r as usize).map(|row| row.iter().any(|cell| cell.text != " ")).unwrap_or(false) {
                            ds.push(if r > y { r - y } else { y - r });
                        }
                    }
                    if let Some((t, b)) = pre.margins {
                        for m in [t, b] {
                            ds.push(if m > y { m - y } else { y - m });
                        }
                    }
                    ds.sort();
                    ds.dedup();
                    let n = cands.len();
                    if !ds.is_empty() && c * l > 30 {
                        for _ in 0..n.min(6) {
                            let cand = &cands[rng.usize(n)];
                            if let [Op::Api(call)] = &cand.ops[..] {
                                let d = *rng.pick(&ds);
                                let d = match rng.below(4) {
                                    0 => d + 1,
                                    1 => d.saturating_sub(1),
                                    _ => d,
                                };
                                if let Some(c2) = call.with_count(d) {
                                    cands.extend(Cand::both(c2));
                                    cx.stats.count("content_relative_candidates", 1);
                                }
                            }
                        }
                    }
                }
                // parser-path candidates again with every parameter zero-padded (1, 63, 64, 65 or
                // 300 zeros): the call delivered must be the same (clause dispatch)
                let n = cands.len();
                for _ in 0..n.min(4) {
                    let x = &cands[rng.usize(n)];
                    if let [Op::Feed(f)] = &x.ops[..] {
                        if let Some(p) = gen::pad_params(f, *rng.pick(&[1usize, 63, 64, 65, 300])) {
                            cands.push(Cand { ops: vec![Op::Feed(p)] });
                            cx.stats.count("zero_padded_candidates", 1);
                        }
                    }
                }
                // the cursor rendition made EQUAL to that of a cell the operation is about to
                // touch (the cell under the cursor, its neighbours, another one in the row or the
                // column): "already looks right" shortcuts key on exactly this coincidence
                let n = cands.len();
                for _ in 0..n.min(5) {
                    let x = cands[rng.usize(n)].ops.clone();
                    if x.len() > 6 {
                        continue;
                    }
                    let (ty, tx) = match rng.below(4) {
                        0 => (pre.cy, pre.cx.min(c - 1)),
                        1 => (pre.cy, (pre.cx + 1).min(c - 1)),
                        2 => (pre.cy, rng.below(c as u64) as u32),
                        _ => (rng.below(l as u64) as u32, pre.cx.min(c - 1)),
                    };
                    if let Some(cell) = pre.grid.get(ty as usize).and_then(|r| r.get(tx as usize)) {
                        let mut ops = vec![Op::Api(Call::Sgr(gen::sgr_of(&cell.attr)))];
                        ops.extend(x);
                        cands.push(Cand { ops });
                        cx.stats.count("same_rendition_candidates", 1);
                    }
                }
                fan_out(cx, self.id, &self.owns, c, l, &setup, &base, &pre, &cands);
            }
        }
    }
    fn replay(&self, case: &Case, cx: &mut Ctx) {
        if case.kind == "session" {
            crate::engine::judge_session(cx, self.id, &self.owns, case.columns, case.lines, &case.ops);
        } else {
            replay_step(cx, self.id, &self.owns, case);
        }
    }
}

fn no_enum(_c: &StepCheck, _cx: &mut Ctx) {}

/// "Any other mode number is recorded without any effect on content, cursor or geometry" has a
/// consequence for every other property: with such a number set, its operations behave exactly as
/// before. Every mode number 0..=130 and the 40 numbers other terminals define, private and ANSI,
/// is set on a small dense screen; then the check's own candidates are judged from three cursor
/// positions (column 0 of a lower row, mid-row, pending wrap).
pub fn modes_sweep(chk: &StepCheck, cx: &mut Ctx, share: f64) -> bool {
    let (c, l) = (5u32, 3u32);
    let mut nums: Vec<u32> = (0..=130).collect();
    nums.extend(gen::OTHER_MODES.iter().cloned());
    nums.sort();
    nums.dedup();
    let mut k = 0u64;
    for n in nums {
        for private in [true, false] {
            k += 1;
            if !cx.mine(k) {
                continue;
            }
            // the implemented modes are the property's own business
            if (private && [3u32, 5, 6, 7, 25].contains(&n)) || (!private && [4u32, 20, 96, 160, 192, 224, 800].contains(&n)) {
                continue;
            }
            if !cx.begin_group(&format!("with mode {}{} set", if private { "?" } else { "" }, n)) {
                continue;
            }
            for pos in 0..3u32 {
                let mut setup = vec![Op::Feed("\x1b[?7labcde\r\n\x1b[31mfghij\r\n\x1b[0;4mklmno\x1b[m\x1b[?7h".into()), Op::Api(Call::SetMode(vec![n], private))];
                match pos {
                    0 => setup.push(Op::Api(Call::CursorPosition(Some(2), Some(1)))),
                    1 => setup.push(Op::Api(Call::CursorPosition(Some(2), Some(3)))),
                    _ => {
                        setup.push(Op::Api(Call::CursorPosition(Some(2), Some(5))));
                        setup.push(Op::Api(Call::Draw("J".into())));
                    }
                }
                if let Some((base, pre)) = reach(cx, c, l, &setup) {
                    let mut rng = Rng::new(k * 3 + pos as u64);
                    let cands = (chk.cands)(&mut rng, &pre, cx.tier);
                    fan_out(cx, chk.id, &chk.owns, c, l, &setup, &base, &pre, &cands);
                }
            }
            if cx.used() > share || cx.out_of_time() {
                return false;
            }
        }
    }
    cx.stats.count("modes_sweeps_completed", 1);
    true
}

/// Every Unicode scalar value (this worker's share of the 1 112 064) through `mk`, each candidate
/// judged step by step from the state reached by `setup` on a `c` x `l` screen. Returns true if
/// the sweep ran to completion within `share` of the time budget.
pub fn unicode_sweep(chk: &StepCheck, cx: &mut Ctx, c: u32, l: u32, setup: &[Op], label: &str, share: f64, mk: &dyn Fn(char) -> Vec<Cand>) -> bool {
    let (base, pre) = match reach(cx, c, l, setup) {
        Some(x) => x,
        None => return false,
    };
    let mut cands: Vec<Cand> = Vec::new();
    for blk in 0..=0x10u32 {
        if !cx.begin_group(&format!("unicode {} plane {:x}", label, blk)) {
            continue;
        }
        for cp in (blk << 16)..((blk + 1) << 16) {
            if !cx.mine(cp as u64) {
                continue;
            }
            if let Some(ch) = char::from_u32(cp) {
                cands.extend(mk(ch));
            }
            if cands.len() >= 2048 {
                fan_out(cx, chk.id, &chk.owns, c, l, setup, &base, &pre, &cands);
                cands.clear();
                if cx.used() > share || cx.out_of_time() {
                    return false;
                }
            }
        }
    }
    fan_out(cx, chk.id, &chk.owns, c, l, setup, &base, &pre, &cands);
    cx.stats.count("unicode_sweeps_completed", 1);
    true
}

fn small_geom(rng: &mut Rng, tier: Tier) -> (u32, u32) {
    gen::pick_geom(rng, tier)
}

/// geometry picker biased to tiny screens (row/column operations)
fn tiny_geom(rng: &mut Rng, tier: Tier) -> (u32, u32) {
    if rng.below(100) < 75 {
        (rng.range(1, 6), rng.range(1, 6))
    } else {
        gen::pick_geom(rng, tier)
    }
}

// -------------------------------------------------------------------------------------------
// enumeration of (region, DECOM, cursor) on small geometries
// -------------------------------------------------------------------------------------------

pub struct EnumOpts {
    pub regions: bool,
    pub decom: bool,
    /// enumerate every cursor column (else: 0, one random, last, pending wrap)
    pub all_x: bool,
    pub states_per_point: u32,
}

/// Returns true if the enumeration ran to completion within the time budget.
pub fn enum_states(
    chk: &StepCheck,
    cx: &mut Ctx,
    geoms: &[(u32, u32)],
    opts: &EnumOpts,
    prof: &Profile,
    cands_for: &dyn Fn(&mut Rng, &Snap) -> Vec<Cand>,
    share: f64,
) -> bool {
    let mut idx: u64 = 0;
    for (c, l) in geoms.iter().cloned() {
        let mut regions: Vec<Option<(u32, u32)>> = vec![None];
        if opts.regions {
            for t in 0..l {
                for b in t + 1..l {
                    regions.push(Some((t, b)));
                }
            }
        }
        for region in regions {
            for decom in if opts.decom { vec![false, true] } else { vec![false] } {
                for y in 0..l {
                    if decom {
                        if let Some((t, b)) = region {
                            if y < t || y > b {
                                continue; // unreachable with origin mode on
                            }
                        }
                    }
                    let xs: Vec<u32> = if opts.all_x {
                        (0..=c).collect()
                    } else {
                        let mut v = vec![0, c.saturating_sub(1), c];
                        if c > 2 {
                            v.push(1 + (idx as u32 * 7 + y) % (c - 2));
                        }
                        v.sort();
                        v.dedup();
                        v
                    };
                    for x in xs {
                        for rep in 0..opts.states_per_point {
                            idx += 1;
                            if !cx.mine(idx) {
                                continue;
                            }
                            if cx.used() > share || cx.out_of_time() {
                                return false;
                            }
                            if !cx.begin_group(&format!("enum {}x{} {:?} {} {},{}", c, l, region, decom, x, y)) {
                                continue;
                            }
                            let mut rng = Rng::new(idx * 31 + 7 + rep as u64);
                            let mut setup = gen::setup(&mut rng, c, l, prof);
                            setup.push(Op::Api(Call::SetMargins(None, None)));
                            setup.push(Op::Api(Call::ResetMode(vec![6], true)));
                            if let Some((t, b)) = region {
                                setup.push(Op::Api(Call::SetMargins(Some(t + 1), Some(b + 1))));
                            }
                            if decom {
                                setup.push(Op::Api(Call::SetMode(vec![6], true)));
                            }
                            let rel = if decom { region.map(|r| r.0).unwrap_or(0) } else { 0 };
                            if x == c {
                                // pending wrap: write the last column (keeps IRM as the zoo chose it)
                                if c >= 2 && rng.below(4) == 0 {
                                    // ... or a double-width character ending flush with the edge
                                    setup.push(Op::Api(Call::CursorPosition(Some(y - rel + 1), Some(c - 1))));
                                    setup.push(Op::Api(Call::Draw("\u{65e5}".into())));
                                } else {
                                    setup.push(Op::Api(Call::CursorPosition(Some(y - rel + 1), Some(c))));
                                    setup.push(Op::Api(Call::Draw(gen::marker(c - 1, y, c).to_string())));
                                }
                            } else {
                                setup.push(Op::Api(Call::CursorPosition(Some(y - rel + 1), Some(x + 1))));
                            }
                            if let Some((base, pre)) = reach(cx, c, l, &setup) {
                                if (pre.cx, pre.cy) != (x, y) || pre.margins != region {
                                    cx.stats.count("enumerated_state_not_reached", 1);
                                    continue;
                                }
                                cx.stats.count("enumerated_states", 1);
                                let cands = cands_for(&mut rng, &pre);
                                fan_out(cx, chk.id, &chk.owns, c, l, &setup, &base, &pre, &cands);
                            }
                        }
                    }
                }
            }
        }
    }
    true
}

fn both(v: &mut Vec<Cand>, c: Call) {
    v.extend(Cand::both(c));
}

fn sample_params(all: &[Option<u32>], full: bool, rng: &mut Rng) -> Vec<Option<u32>> {
    if full {
        all.to_vec()
    } else {
        let mut o = vec![None, Some(0), Some(1), Some(9999)];
        for _ in 0..3 {
            o.push(*rng.pick(all));
        }
        o
    }
}

// -------------------------------------------------------------------------------------------
// C05 cursor movement
// -------------------------------------------------------------------------------------------

fn c05_cands_full(full: bool, rng: &mut Rng, pre: &Snap) -> Vec<Cand> {
    use Call::*;
    let (l, c) = (pre.lines, pre.columns);
    let mut v = Vec::new();
    let pl = params_all(l);
    let pc = params_all(c);
    for n in sample_params(&pl, full, rng) {
        both(&mut v, CursorUp(n));
        both(&mut v, CursorDown(n));
        both(&mut v, CursorUp1(n));
        both(&mut v, CursorDown1(n));
        both(&mut v, CursorToLine(n));
        // VPR spelling (same listener method as CUD)
        v.push(Cand { ops: vec![Op::Feed(format!("\x1b[{}e", n.map(|x| x.to_string()).unwrap_or_default()))] });
    }
    for n in sample_params(&pc, full, rng) {
        both(&mut v, CursorForward(n));
        both(&mut v, CursorBack(n));
        both(&mut v, CursorToColumn(n));
        v.push(Cand { ops: vec![Op::Feed(format!("\x1b[{}a", n.map(|x| x.to_string()).unwrap_or_default()))] });
    }
    let ls = sample_params(&pl, full, rng);
    let cs = sample_params(&pc, full, rng);
    for a in &ls {
        for b in &cs {
            both(&mut v, CursorPosition(*a, *b));
            // HVP spelling
            if let (Some(a), Some(b)) = (a, b) {
                if (a + b) % 3 == 0 {
                    v.push(Cand { ops: vec![Op::Feed(format!("\x1b[{};{}f", a, b))] });
                }
            }
        }
    }
    both(&mut v, Backspace);
    both(&mut v, CarriageReturn);
    v
}

fn c05_cands(rng: &mut Rng, pre: &Snap, _t: Tier) -> Vec<Cand> {
    c05_cands_full(false, rng, pre)
}

fn c05_enum(chk: &StepCheck, cx: &mut Ctx) {
    // a layout change repeated 256 and 65536 times (revision counters of 8 / 16 bits wrap back to
    // a value some cache was stamped with), then the movement candidates
    for (i, (n, variant)) in [(256u32, 0u32), (65536, 0), (256, 1), (65536, 1), (65536, 2)].iter().enumerate() {
        if !cx.mine(i as u64 + 7) || !cx.begin_group(&format!("repeat {} x variant {}", n, variant)) {
            continue;
        }
        let (c, l) = (6u32, 8u32);
        let mut setup: Vec<Op> = Vec::new();
        match variant {
            0 => {
                // region + origin mode, an addressing call (fills whatever is cached), then CSI r n times
                setup.push(Op::Api(Call::SetMargins(Some(3), Some(5))));
                setup.push(Op::Api(Call::SetMode(vec![6], true)));
                setup.push(Op::Api(Call::CursorPosition(Some(2), Some(4))));
                for _ in 0..*n {
                    setup.push(Op::Api(Call::SetMargins(None, None)));
                }
            }
            1 => {
                setup.push(Op::Api(Call::CursorPosition(Some(8), Some(3))));
                for k in 0..*n {
                    setup.push(Op::Api(Call::Resize(Some(if k % 2 == 0 { 5 } else { 8 }), None)));
                }
            }
            _ => {
                setup.push(Op::Api(Call::CursorPosition(Some(4), Some(3))));
                for k in 0..*n {
                    setup.push(Op::Api(if k % 2 == 0 { Call::SetMode(vec![6], true) } else { Call::ResetMode(vec![6], true) }));
                }
                setup.push(Op::Api(Call::SetMargins(Some(2), Some(6))));
            }
        }
        if let Some((base, pre)) = reach(cx, c, l, &setup) {
            let mut rng = Rng::new(*n as u64 + *variant as u64);
            let cands = c05_cands_full(true, &mut rng, &pre);
            fan_out(cx, chk.id, &chk.owns, c, l, &setup, &base, &pre, &cands);
            cx.stats.exhaustive_parts.insert("movement candidates after 256 / 65536 repetitions of a layout change (CSI r, resize between two heights, DECOM set / reset)".into());
        }
    }
    if modes_sweep(chk, cx, 0.25) {
        cx.stats.exhaustive_parts.insert("every mode number 0..=130 and 40 numbers other terminals define, private and ANSI, set on a dense 5x3 screen: the check's candidates judged from three cursor positions".into());
    }
    // more columns than the largest parameter the parser can deliver: blank one-line screens,
    // cursor near the left edge, sampled parameters (incl. 9998, 9999, absent, 0)
    for (i, c) in [10001u32, 10050, 12000].iter().enumerate() {
        if !cx.mine(i as u64 + 1) || !cx.begin_group(&format!("wide {}x1", c)) {
            continue;
        }
        for x in [1u32, 2, 40] {
            let setup = vec![Op::Api(Call::CursorToColumn(Some(x)))];
            if let Some((base, pre)) = reach(cx, *c, 1, &setup) {
                let mut rng = Rng::new(*c as u64 + x as u64);
                let mut cands = c05_cands_full(false, &mut rng, &pre);
                for n in [9998u32, 9999] {
                    cands.extend(Cand::both(Call::CursorForward(Some(n))));
                    cands.extend(Cand::both(Call::CursorToColumn(Some(n))));
                }
                fan_out(cx, chk.id, &chk.owns, *c, 1, &setup, &base, &pre, &cands);
            }
        }
    }
    let geoms: Vec<(u32, u32)> = if cx.quick() {
        vec![(1, 1), (1, 4), (4, 1), (2, 2), (3, 3), (5, 4)]
    } else {
        vec![(1, 1), (1, 4), (4, 1), (2, 2), (3, 3), (5, 4), (2, 1), (1, 2), (8, 3), (6, 6), (10, 6)]
    };
    let prof = Profile { no_resize: true, ..Default::default() };
    let done = enum_states(
        chk,
        cx,
        &geoms,
        &EnumOpts { regions: true, decom: true, all_x: true, states_per_point: 1 },
        &prof,
        &|rng, pre| c05_cands_full(true, rng, pre),
        0.8,
    );
    if done {
        cx.stats.exhaustive_parts.insert(format!(
            "every (region, DECOM, reachable cursor incl. pending wrap) x CUU CUD CNL CPL VPA VPR CUF CUB CHA HPR CUP HVP BS CR x P(size) x {{API, parser}} on geometries {:?}",
            geoms
        ));
    }
}

pub static C05: StepCheck = StepCheck {
    id: "C05",
    rule: "per-step Hoare monitor: cursor after each movement call (CUU CUD CUF CUB CNL CPL HPR VPR CHA VPA CUP HVP BS CR) vs the closed-form rule computed from the implementation's own pre-state, and equality of every other component; enumerated small geometries x regions x DECOM x cursors x P(size), plus zoo states on larger geometries.",
    required: &["step-judged", "pending-wrap", "margins", "DECOM"],
    owns: |c, _| if c.owner() == "C05" { Own::Full } else { Own::No },
    profile: || Profile { no_resize: true, ..Default::default() },
    cands: c05_cands,
    enumerated: c05_enum,
    geom: |rng, tier| {
        // 3 %: one dimension beyond the largest parameter the parser can deliver (9999), the
        // other tiny - "clamps to the screen" must not silently mean "clamps at 9999"
        // (tall only here: rows of three cells are cheap to snapshot; the wide counterpart is a
        // light-weight enumerated case in c05_enum)
        if rng.below(100) < 3 {
            (rng.range(1, 3), rng.range(10001, 10300))
        } else {
            small_geom(rng, tier)
        }
    },
};

// -------------------------------------------------------------------------------------------
// C04 draw
// -------------------------------------------------------------------------------------------

pub const DRAW_POOL: [char; 46] = [
    'a', 'Z', '~', ' ', '0', '_', 'q', '`', 'x', 'j', 'é', 'ÿ', '\u{a0}', '\u{ad}', 'ß', '¬', 'ж', 'Я', 'λ', '│', 'コ', '日',
    '本', '😀', '\u{ff21}', '\u{0308}', '\u{0301}', '\u{20dd}', '\u{200b}', '\u{feff}', '\u{200d}', '\0', '\u{7}',
    '\u{7f}', '\u{85}', '\u{1b}', '\u{9b}', '\u{18}', '\u{e000}', '\u{10ffff}',
    // members of sequences that are narrower / wider as a string than character by character
    '\u{fe0f}', '\u{1f3fd}', '\u{644}', '\u{627}', '\u{2764}', '\u{1f1e9}',
];

fn draw_both(v: &mut Vec<Cand>, s: String) {
    // parser path: only if every character is delivered as text by the grammar
    if !s.chars().any(|c| (c as u32) < 0x20 || c == '\u{9b}' || c == '\u{9d}') {
        v.push(Cand { ops: vec![Op::Feed(s.clone())] });
    }
    v.push(Cand::api(Call::Draw(s)));
}

fn c04_cands(rng: &mut Rng, _pre: &Snap, _t: Tier) -> Vec<Cand> {
    let mut v = Vec::new();
    if rng.below(8) == 0 {
        // all singles and all ordered pairs of the pool from this state
        for a in DRAW_POOL.iter() {
            draw_both(&mut v, a.to_string());
            for b in DRAW_POOL.iter() {
                draw_both(&mut v, format!("{}{}", a, b));
            }
        }
        return v;
    }
    for _ in 0..12 {
        draw_both(&mut v, rng.pick(&DRAW_POOL).to_string());
    }
    for _ in 0..10 {
        draw_both(&mut v, format!("{}{}", rng.pick(&DRAW_POOL), rng.pick(&DRAW_POOL)));
    }
    for _ in 0..6 {
        let n = 1 + rng.usize(12);
        let s: String = (0..n).map(|_| if rng.below(3) == 0 { *rng.pick(&DRAW_POOL) } else { (b'a' + rng.below(26) as u8) as char }).collect();
        draw_both(&mut v, s);
    }
    // the pending-wrap column carried to ANOTHER row by a vertical move (the row may never have
    // been written), with insert mode on or off, then a draw that wraps from there
    for _ in 0..3 {
        let (pc, pl) = (_pre.columns, _pre.lines);
        let mut ops = vec![Op::Api(Call::CursorPosition(Some(rng.range(1, pl)), Some(pc))), Op::Api(Call::Draw("w".into()))];
        let n = Some(rng.range(1, pl));
        ops.push(Op::Api(if rng.bool() { Call::CursorUp(n) } else { Call::CursorDown(n) }));
        if rng.bool() {
            ops.push(Op::Api(Call::SetMode(vec![4], false)));
        }
        if rng.below(4) == 0 {
            ops.push(Op::Api(Call::SetMode(vec![7], true)));
        }
        ops.push(Op::Api(Call::Draw(format!("{}", rng.pick(&DRAW_POOL)))));
        ops.push(Op::Api(Call::Draw("xy".into())));
        v.push(Cand { ops });
    }
    // what only the API can pass in one call (see gen::mixed_api_string): composable pairs and
    // jamo next to each other with a combining mark elsewhere, controls, sequences
    for _ in 0..4 {
        v.push(Cand::api(Call::Draw(gen::mixed_api_string(rng))));
    }
    // characters from the class-representative sample of all of Unicode, alone, after a narrow
    // and after a wide character, and in a short run
    for _ in 0..6 {
        let u = gen::uchar(rng);
        draw_both(&mut v, u.to_string());
        draw_both(&mut v, format!("a{}b", u));
        draw_both(&mut v, format!("\u{65e5}{}{}", u, gen::uchar(rng)));
    }
    // the character set in use changed by a shuffle of shifts and designations right before the
    // draw (any order: designate the slot in use, the slot not in use, shift twice, ...): what is
    // drawn goes through the table that is in use NOW
    for round in 0..6 {
        let shuffle = |rng: &mut Rng, ops: &mut Vec<Op>| {
            for _ in 0..1 + rng.below(4) {
                ops.push(Op::Api(match rng.below(8) {
                    0 => Call::ShiftOut,
                    1 => Call::ShiftIn,
                    2 => Call::SaveCursor,
                    3 => Call::RestoreCursor,
                    4 => {
                        if rng.below(4) == 0 {
                            Call::Reset
                        } else {
                            Call::CarriageReturn
                        }
                    }
                    _ => Call::DefineCharset((*rng.pick(&["B", "0", "U", "V"])).into(), (*rng.pick(&["(", ")"])).into()),
                }));
            }
        };
        let mut ops: Vec<Op> = Vec::new();
        shuffle(rng, &mut ops);
        let n = 1 + rng.usize(4);
        let s: String = (0..n).map(|_| *rng.pick(&['q', '~', '_', 'x', 'a', '\u{e9}', '\u{fe}', '\u{2502}', '`', '\u{18}', '\u{ad}', '\u{7f}', '\u{1}'])).collect();
        ops.push(Op::Api(Call::Draw(s.clone())));
        if round % 2 == 1 {
            // ... and the very same string again after the sets changed once more (whatever was
            // remembered about "this character in this slot" is stale now)
            shuffle(rng, &mut ops);
            ops.push(Op::Api(Call::Draw(s)));
        }
        v.push(Cand { ops });
    }
    v
}

pub static C04: StepCheck = StepCheck {
    id: "C04",
    rule: "per-step Hoare monitor: grid, cursor and every other component after draw(text) vs the reference drawing semantics (charset translation, width 0/1/2, combining, pending wrap with DECAWM on/off, scrolling at the bottom margin, LNM, IRM splice) applied to the implementation's own pre-state. Texts: singles, ordered pairs (all 2116 pairs of a 46-character class pool from 1/8 of the states) and random strings <= 12, via Screen::draw and via a fresh parser; states from the zoo (markers, colours, margins, modes, charsets, pending wrap, wide/combining content).",
    required: &["step-judged", "pending-wrap", "IRM", "DECAWM-off", "wide-char", "degenerate-geometry"],
    owns: |c, _| if c.owner() == "C04" { Own::Full } else { Own::No },
    profile: || Profile { wide: 8, irm: 30, pending_wrap: 35, charset8: 20, ..Default::default() },
    cands: c04_cands,
    enumerated: |chk, cx| {
        if modes_sweep(chk, cx, 0.2) {
            cx.stats.exhaustive_parts.insert("every mode number 0..=130 and 40 numbers other terminals define, private and ANSI, set on a dense 5x3 screen: the draw candidates judged from three cursor positions".into());
        }
        // every Unicode scalar value drawn between two letters in the middle of a row, and at the
        // last column followed by a letter (wrap / clip), through the API
        let done = unicode_sweep(chk, cx, 6, 2, &[Op::Api(Call::CursorPosition(Some(1), Some(2)))], "draw", 0.6, &|ch| {
            vec![
                Cand { ops: vec![Op::Api(Call::Draw(format!("a{}b", ch)))] },
                Cand { ops: vec![Op::Api(Call::CursorPosition(Some(1), Some(6))), Op::Api(Call::Draw(ch.to_string())), Op::Api(Call::Draw("z".into()))] },
                Cand { ops: vec![Op::Api(Call::Draw("\u{65e5}".into())), Op::Api(Call::Draw(ch.to_string()))] },
            ]
        });
        if done {
            cx.stats.exhaustive_parts.insert("every Unicode scalar value (1 112 064) drawn through the API between two letters, at the last column followed by a letter, and right after a double-width character, on a 6x2 screen".into());
        }
    },
    geom: small_geom,
};

// -------------------------------------------------------------------------------------------
// C06 scrolling, IL/DL, DECSTBM
// -------------------------------------------------------------------------------------------

fn c06_cands_full(full: bool, rng: &mut Rng, pre: &Snap) -> Vec<Cand> {
    use Call::*;
    let l = pre.lines;
    let mut v = Vec::new();
    both(&mut v, Index);
    both(&mut v, Linefeed);
    both(&mut v, ReverseIndex);
    for s in ["\x0b", "\x0c", "\x1bE"] {
        v.push(Cand { ops: vec![Op::Feed(s.into())] });
    }
    let pl = params_all(l);
    for n in sample_params(&pl, full, rng) {
        both(&mut v, InsertLines(n));
        both(&mut v, DeleteLines(n));
    }
    let ts = sample_params(&pl, full && l <= 6, rng);
    let bs = sample_params(&pl, full && l <= 6, rng);
    for t in &ts {
        for b in &bs {
            both(&mut v, SetMargins(*t, *b));
        }
    }
    // autowrap route into index
    if pre.cx >= pre.columns {
        v.push(Cand::api(Draw("x".into())));
        v.push(Cand { ops: vec![Op::Feed("x".into())] });
    }
    v
}

fn c06_enum(chk: &StepCheck, cx: &mut Ctx) {
    if modes_sweep(chk, cx, 0.25) {
        cx.stats.exhaustive_parts.insert("every mode number 0..=130 and 40 numbers other terminals define, private and ANSI, set on a dense 5x3 screen: the check's candidates judged from three cursor positions".into());
    }
    // a row whose only content is one character, whatever it is, scrolls like any other row
    let done = unicode_sweep(chk, cx, 3, 2, &[], "scroll", 0.4, &|ch| {
        vec![Cand { ops: vec![Op::Api(Call::CursorPosition(Some(2), Some(1))), Op::Api(Call::Draw(ch.to_string())), Op::Api(if (ch as u32) % 2 == 0 { Call::Index } else { Call::Linefeed })] }]
    });
    if done {
        cx.stats.exhaustive_parts.insert("every Unicode scalar value as the only content of the bottom row of a 3x2 screen, then IND / LF".into());
    }
    let mut geoms = Vec::new();
    for l in 1..=6u32 {
        for c in 1..=4u32 {
            if cx.quick() && !(c == 1 || c == 3) {
                continue;
            }
            geoms.push((c, l));
        }
    }
    let prof = Profile { sparse_rows: 70, no_resize: true, ..Default::default() };
    let done = enum_states(
        chk,
        cx,
        &geoms,
        &EnumOpts { regions: true, decom: true, all_x: false, states_per_point: if cx.quick() { 1 } else { 3 } },
        &prof,
        &|rng, pre| c06_cands_full(true, rng, pre),
        0.8,
    );
    if done {
        cx.stats.exhaustive_parts.insert(format!(
            "every (region, DECOM, cursor row) x IND LF VT FF NEL RI, IL/DL x P(lines), DECSTBM x P(lines)^2, autowrap at pending wrap x {{API, parser}} on geometries {:?} (cell contents sampled: written/never-written/materialised rows from the zoo)",
            geoms
        ));
    }
}

pub static C06: StepCheck = StepCheck {
    id: "C06",
    rule: "per-step Hoare monitor: rows (compared cell by cell; every cell carries a distinct marker and per-row colours), cursor and margins after IND/LF/VT/FF/NEL/RI, IL/DL n, DECSTBM t;b and autowrap-at-the-bottom-margin vs the reference row permutation computed from the implementation's own pre-state; rows outside the affected span must be identical.",
    required: &["step-judged", "margins", "blank-row", "DECOM"],
    owns: |c, s| {
        if c.owner() == "C06" || (matches!(c, Call::Draw(_)) && s.cx >= s.columns) {
            Own::Full
        } else {
            Own::No
        }
    },
    profile: || Profile { sparse_rows: 60, margins: 65, pending_wrap: 30, ..Default::default() },
    cands: |rng, pre, _| c06_cands_full(false, rng, pre),
    enumerated: c06_enum,
    geom: tiny_geom,
};

// -------------------------------------------------------------------------------------------
// C07 erase
// -------------------------------------------------------------------------------------------

fn c07_cands_full(full: bool, rng: &mut Rng, pre: &Snap) -> Vec<Cand> {
    use Call::*;
    let mut v = Vec::new();
    for sel in [None, Some(0), Some(1), Some(2), Some(3), Some(4), Some(5), Some(9999)] {
        both(&mut v, EraseInDisplay(sel));
        both(&mut v, EraseInLine(sel));
    }
    let pc = params_all(pre.columns);
    for n in sample_params(&pc, full, rng) {
        both(&mut v, EraseCharacters(n));
    }
    v
}

fn c07_enum(chk: &StepCheck, cx: &mut Ctx) {
    if modes_sweep(chk, cx, 0.25) {
        cx.stats.exhaustive_parts.insert("every mode number 0..=130 and 40 numbers other terminals define, private and ANSI, set on a dense 5x3 screen: the check's candidates judged from three cursor positions".into());
    }
    // whatever a cell holds, an erase makes it a blank: every Unicode scalar value drawn with the
    // very rendition the erase will use, then erased by EL 2 / ECH / ED 2
    let done = unicode_sweep(chk, cx, 4, 1, &[], "erase", 0.5, &|ch| {
        let k = (ch as u32) % 3;
        let erase = match k {
            0 => Call::EraseInLine(Some(2)),
            1 => Call::EraseCharacters(Some(3)),
            _ => Call::EraseInDisplay(Some(2)),
        };
        vec![Cand { ops: vec![Op::Api(Call::Draw(format!("{}q", ch))), Op::Api(Call::CursorPosition(Some(1), Some(1))), Op::Api(erase)] }]
    });
    if done {
        cx.stats.exhaustive_parts.insert("every Unicode scalar value (1 112 064) drawn with the current rendition and then erased (EL 2 / ECH 3 / ED 2 by code point mod 3) on a 4x1 screen".into());
    }
    let geoms: Vec<(u32, u32)> = if cx.quick() {
        vec![(1, 1), (1, 3), (3, 1), (2, 2), (4, 3), (6, 4)]
    } else {
        vec![(1, 1), (1, 3), (3, 1), (2, 2), (4, 3), (6, 4), (2, 1), (1, 2), (3, 3), (5, 4), (6, 3), (8, 3)]
    };
    let prof = Profile { no_resize: true, ..Default::default() };
    let done = enum_states(
        chk,
        cx,
        &geoms,
        &EnumOpts { regions: false, decom: false, all_x: true, states_per_point: if cx.quick() { 2 } else { 6 } },
        &prof,
        &|rng, pre| c07_cands_full(true, rng, pre),
        0.6,
    );
    if done {
        cx.stats.exhaustive_parts.insert(format!(
            "every cursor cell incl. pending wrap x ED/EL selectors {{absent,0,1,2,3,4,5,9999}} x ECH P(columns) x {{API, parser}} on geometries {:?} (contents/renditions/margins sampled from the zoo)",
            geoms
        ));
    }
}

pub static C07: StepCheck = StepCheck {
    id: "C07",
    rule: "per-step Hoare monitor: every cell after ED/EL/ECH vs the documented erased set (blank + cursor rendition inside, identical outside), cursor/modes/margins/tab stops unchanged, scrolling region and origin mode irrelevant, unsupported selectors ignored; reference computed from the implementation's own pre-state.",
    required: &["step-judged", "pending-wrap", "margins"],
    owns: |c, _| if c.owner() == "C07" { Own::Full } else { Own::No },
    profile: || Profile { pending_wrap: 30, ..Default::default() },
    cands: |rng, pre, _| c07_cands_full(false, rng, pre),
    enumerated: c07_enum,
    geom: small_geom,
};

// -------------------------------------------------------------------------------------------
// C08 SGR
// -------------------------------------------------------------------------------------------

pub const SGR_DOC: [u32; 70] = [
    0, 1, 3, 4, 5, 7, 9, 22, 23, 24, 25, 27, 29, 30, 31, 32, 33, 34, 35, 36, 37, 39, 40, 41, 42, 43, 44, 45, 46, 47, 49, 90,
    91, 92, 93, 94, 95, 96, 97, 100, 101, 102, 103, 104, 105, 106, 107, 38, 48, 2, 6, 8, 10, 21, 26, 28, 50, 98, 99, 108, 255,
    256, 9999, 16, 15, 231, 232, 196, 127, 128,
];

fn sgr_then_draw(v: &mut Vec<Cand>, codes: Vec<u32>) {
    let sgr = Call::Sgr(codes);
    if let Some(seq) = sgr.to_seq() {
        v.push(Cand { ops: vec![Op::Feed(format!("{}x", seq))] });
    }
    v.push(Cand { ops: vec![Op::Api(sgr), Op::Api(Call::Draw("x".into()))] });
}

fn c08_cands(rng: &mut Rng, _pre: &Snap, _t: Tier) -> Vec<Cand> {
    let mut v = Vec::new();
    for _ in 0..40 {
        let n = 1 + rng.usize(12);
        let mut codes = Vec::new();
        for _ in 0..n {
            match rng.below(10) {
                0..=5 => codes.push(*rng.pick(&SGR_DOC)),
                6 => codes.extend([*rng.pick(&[38u32, 48]), 5, rng.range(0, 300)]),
                7 => codes.extend([*rng.pick(&[38u32, 48]), 2, rng.range(0, 300), rng.range(0, 300), rng.range(0, 300)]),
                8 => codes.push(rng.range(0, 9999)),
                _ => codes.extend([*rng.pick(&[38u32, 48]), rng.range(0, 9)]),
            }
        }
        sgr_then_draw(&mut v, codes);
    }
    // parser-only spellings with empty parameters
    for s in ["\x1b[mx", "\x1b[;mx", "\x1b[;;1mx", "\x1b[1;;mx", "\x1b[38;5mx", "\x1b[38;;5;1mx", "\u{9b}31mx"] {
        v.push(Cand { ops: vec![Op::Feed(s.into())] });
    }
    // the same glyph drawn twice on the same cell, the second time with a rendition that differs
    // in exactly one attribute: the cell must carry exactly the second rendition
    for (on, off) in [(1u32, 22u32), (3, 23), (4, 24), (5, 25), (7, 27), (9, 29), (31, 39), (44, 49), (92, 39), (103, 49)] {
        let base = *rng.pick(&[0u32, 1, 4, 9, 33, 45]);
        for (first, second) in [(on, off), (off, on)] {
            let g = *rng.pick(&['x', ' ', 'M']);
            v.push(Cand { ops: vec![Op::Api(Call::Sgr(vec![0, base, first])), Op::Api(Call::Draw(g.to_string())), Op::Api(Call::Backspace), Op::Api(Call::Sgr(vec![second])), Op::Api(Call::Draw(g.to_string()))] });
            v.push(Cand { ops: vec![Op::Feed(format!("\x1b[0;{};{}m{}\x08\x1b[{}m{}", base, first, g, second, g))] });
        }
    }
    // the rendition replaced by a non-SGR route (DECRC, RIS, DECSCNM), then the very list that was
    // applied last is sent again: it must be folded over the *current* rendition
    for _ in 0..6 {
        let a = gen::rendition(rng);
        let b = gen::rendition(rng);
        let route = match rng.below(3) {
            0 => vec![Op::Api(Call::RestoreCursor)],
            1 => vec![Op::Api(Call::Reset)],
            _ => vec![Op::Api(Call::SetMode(vec![5], true)), Op::Api(Call::ResetMode(vec![5], true))],
        };
        let mut ops = vec![Op::Api(Call::Sgr(a.clone())), Op::Api(Call::SaveCursor), Op::Api(Call::Sgr(b.clone()))];
        ops.extend(route.clone());
        ops.push(Op::Api(Call::Sgr(b.clone())));
        ops.push(Op::Api(Call::Draw("x".into())));
        v.push(Cand { ops });
        let fmt = |l: &Vec<u32>| l.iter().map(|x| x.to_string()).collect::<Vec<_>>().join(";");
        v.push(Cand { ops: vec![Op::Feed(format!("\x1b[{}m\x1b7\x1b[{}m\x1b8\x1b[{}mx", fmt(&a), fmt(&b), fmt(&b)))] });
    }
    // an abandoned or skipped control sequence before the SGR must leave nothing behind
    for pre in ["\x1b[1;4\x18", "\x1b[7;\x1a", "\x1b[1;1;5;5;1$r", "\x1b[38;5;", "\x1b[38;5;\x18", "\x1b[4;9z", "\x1b]4;1;rgb:ff/00/00\x07", "\x1b[?1;5\x18"] {
        let code = *rng.pick(&SGR_DOC);
        v.push(Cand { ops: vec![Op::Feed(format!("{}\x1b[{}mx", pre, code))] });
        v.push(Cand { ops: vec![Op::Feed(pre.to_string()), Op::Feed(format!("\x1b[3;{}mx", code))] });
    }
    v
}

fn c08_enum(chk: &StepCheck, cx: &mut Ctx) {
    // all 16 777 216 true colours, foreground and background: the colour string must be exactly
    // rrggbb. One long-lived screen per worker, the rendition read back directly; a mismatch or a
    // panic is handed to the step monitor for a proper verdict and witness.
    if cx.begin_group("truecolour sweep") {
        use memterm::parser_listener::ParserListener;
        let mut scr = memterm::screen::Screen::new(2, 1);
        let mut bad: Vec<Vec<u32>> = Vec::new();
        let mut complete = true;
        'sweep: for r in 0..256u32 {
            if !cx.mine(r as u64) {
                continue;
            }
            for g in 0..256u32 {
                for b in 0..256u32 {
                    let head = if (r + g + b) % 2 == 0 { 38 } else { 48 };
                    let want = format!("{:02x}{:02x}{:02x}", r, g, b);
                    let ok = crate::sys::catch(|| {
                        scr.select_graphic_rendition(&[head, 2, r, g, b]);
                        if head == 38 {
                            scr.cursor.attr.fg == want
                        } else {
                            scr.cursor.attr.bg == want
                        }
                    });
                    if !matches!(ok, Ok(true)) {
                        bad.push(vec![head, 2, r, g, b]);
                        if ok.is_err() {
                            scr = memterm::screen::Screen::new(2, 1);
                        }
                        if bad.len() > 20 {
                            break 'sweep;
                        }
                    }
                }
                cx.stats.evaluations += 256;
            }
            if cx.used() > 0.3 || cx.out_of_time() {
                complete = false;
                break;
            }
        }
        if !bad.is_empty() {
            if let Some((base, pre)) = reach(cx, 3, 2, &[]) {
                let mut cands = Vec::new();
                for l in bad {
                    sgr_then_draw(&mut cands, l);
                }
                fan_out(cx, chk.id, &chk.owns, 3, 2, &[], &base, &pre, &cands);
            }
        }
        if complete {
            cx.stats.count("truecolour_sweeps_completed", 1);
            cx.stats.exhaustive_parts.insert("all 16 777 216 colours 38|48;2;r;g;b through the API (colour string read back)".into());
        }
    }
    // six attribute states on a 3x2 screen
    let states: [&[u32]; 6] = [&[], &[1, 31, 44], &[3, 4, 5, 7, 9, 97, 100], &[38, 5, 196, 48, 2, 1, 2, 3], &[7], &[22, 39, 49, 4]];
    let (c, l) = (3u32, 2u32);
    let mut complete = true;
    for (si, st) in states.iter().enumerate() {
        let mut setup = vec![Op::Feed("ab\r\ncd".into())];
        if si == 4 {
            setup.push(Op::Api(Call::SetMode(vec![5], true))); // DECSCNM: default rendition is reverse
        }
        if !st.is_empty() {
            setup.push(Op::Api(Call::Sgr(st.to_vec())));
        }
        setup.push(Op::Api(Call::CursorPosition(Some(2), Some(3))));
        if !cx.begin_group(&format!("sgr-enum state {}", si)) {
            continue;
        }
        let (base, pre) = match reach(cx, c, l, &setup) {
            Some(x) => x,
            None => {
                complete = false;
                continue;
            }
        };
        let mut cands = Vec::new();
        // every single code 0..=9999
        for n in 0..=9999u32 {
            if cx.mine(n as u64) {
                sgr_then_draw(&mut cands, vec![n]);
            }
        }
        // every 38|48;5;n and 38|48;2;r;g;b boundary form, truncated prefixes
        let mut k: u64 = 0;
        for head in [38u32, 48] {
            for n in (0..=300u32).chain([9999]) {
                k += 1;
                if cx.mine(k) {
                    sgr_then_draw(&mut cands, vec![head, 5, n]);
                    sgr_then_draw(&mut cands, vec![head, 5, n, 1]);
                }
            }
            let vals = [0u32, 1, 127, 255, 256, 9999];
            for r in vals {
                for g in vals {
                    for b in vals {
                        k += 1;
                        if cx.mine(k) {
                            sgr_then_draw(&mut cands, vec![head, 2, r, g, b]);
                            sgr_then_draw(&mut cands, vec![1, head, 2, r, g, b, 4]);
                        }
                    }
                }
            }
            for pre in [vec![head], vec![head, 5], vec![head, 2], vec![head, 2, 10], vec![head, 2, 10, 20], vec![head, 7], vec![head, 7, 31], vec![head, 0], vec![head, 5, 256, 31]] {
                k += 1;
                if cx.mine(k) {
                    sgr_then_draw(&mut cands, pre.clone());
                    let mut p2 = vec![31, 1];
                    p2.extend(pre);
                    sgr_then_draw(&mut cands, p2);
                }
            }
        }
        // every code 0..=120 used as if it were a colour introducer: [n, a, b] over a tail
        // alphabet and [n, 2, r, g, b] - only 38 and 48 may consume what follows, whatever
        // other terminals define for 58, 59 or anything else
        for n in 0..=120u32 {
            let tail = [0u32, 1, 2, 4, 5, 7, 9, 22, 31, 255];
            for a in tail {
                for b in tail {
                    k += 1;
                    if cx.mine(k) {
                        sgr_then_draw(&mut cands, vec![n, a, b]);
                    }
                }
            }
            for r in [0u32, 5, 255] {
                for g in [0u32, 5, 255] {
                    for b in [0u32, 1, 255] {
                        k += 1;
                        if cx.mine(k) {
                            sgr_then_draw(&mut cands, vec![n, 2, r, g, b]);
                            sgr_then_draw(&mut cands, vec![31, n, 5, b, 4]);
                        }
                    }
                }
            }
        }
        // an out-of-range colour triple that collides with a valid one under the obvious packing
        // (r<<16 | g<<8 | b), in the same list and in the next call: it must still be ignored
        for r in [0u32, 1, 2, 255] {
            for g in [0u32, 1, 2, 255] {
                for b in [0u32, 1, 255] {
                    let mut aliases: Vec<[u32; 3]> = Vec::new();
                    if g >= 1 {
                        aliases.push([r, g - 1, b + 256]);
                    }
                    if r >= 1 {
                        aliases.push([r - 1, g + 256, b]);
                        aliases.push([r - 1, g + 255, b + 256]);
                    }
                    for a in aliases {
                        k += 1;
                        if cx.mine(k) {
                            sgr_then_draw(&mut cands, vec![38, 2, r, g, b, 48, 2, a[0], a[1], a[2]]);
                            cands.push(Cand { ops: vec![Op::Api(Call::Sgr(vec![48, 2, r, g, b])), Op::Api(Call::Sgr(vec![38, 2, a[0], a[1], a[2]])), Op::Api(Call::Draw("x".into()))] });
                        }
                    }
                }
            }
        }
        // two lists in a row where the second differs from the first only by a carry between
        // neighbouring parameters (b + 256, a - 1): identical under any packing of parameters
        // into bytes, different in meaning (the out-of-range / unknown value must be ignored)
        for a in SGR_DOC.iter().step_by(3) {
            for b in SGR_DOC.iter().step_by(2) {
                k += 1;
                if !cx.mine(k) || *a == 0 {
                    continue;
                }
                for lead in [vec![0u32], vec![]] {
                    let mut l1 = lead.clone();
                    l1.extend([*a, *b]);
                    let mut l2 = lead.clone();
                    l2.extend([*a - 1, *b + 256]);
                    cands.push(Cand { ops: vec![Op::Api(Call::Sgr(l1.clone())), Op::Api(Call::Draw("x".into())), Op::Api(Call::Sgr(l2.clone())), Op::Api(Call::Draw("y".into()))] });
                    cands.push(Cand { ops: vec![Op::Api(Call::Sgr(l2)), Op::Api(Call::CursorPosition(Some(1), Some(1))), Op::Api(Call::Sgr(l1)), Op::Api(Call::Draw("y".into()))] });
                }
            }
        }
        for n in [44u32, 196, 255] {
            for head in [38u32, 48] {
                cands.push(Cand { ops: vec![Op::Api(Call::Sgr(vec![0, head, 5, n])), Op::Api(Call::Draw("x".into())), Op::Api(Call::Sgr(vec![0, head, 5, n + 256])), Op::Api(Call::Draw("y".into()))] });
                cands.push(Cand { ops: vec![Op::Api(Call::Sgr(vec![0, head, 5, n])), Op::Api(Call::Sgr(vec![0, head, 4, n + 256])), Op::Api(Call::Draw("y".into()))] });
            }
        }
        // all ordered pairs over the documented codes
        for a in SGR_DOC.iter() {
            for b in SGR_DOC.iter() {
                k += 1;
                if cx.mine(k) {
                    sgr_then_draw(&mut cands, vec![*a, *b]);
                }
            }
        }
        fan_out(cx, chk.id, &chk.owns, c, l, &setup, &base, &pre, &cands);
        if cx.out_of_time() {
            complete = false;
            break;
        }
    }
    if complete {
        cx.stats.exhaustive_parts.insert("every single SGR code 0..=9999, every 38|48;5;n (n in 0..=300, 9999), every 38|48;2;r;g;b over {0,1,127,255,256,9999}^3, truncated extended-colour forms, all ordered pairs over 70 codes - each from 6 attribute states, through the API and through `CSI ... m`, each followed by drawing one character".into());
    }
}

pub static C08: StepCheck = StepCheck {
    id: "C08",
    rule: "per-step Hoare monitor: cursor rendition after select_graphic_rendition vs an independently written left-to-right fold (own tables, xterm palette computed from its definition), grid unchanged, and the attributes of the character drawn next.",
    required: &["step-judged"],
    owns: |c, _| match c {
        Call::Sgr(_) => Own::Full,
        Call::Draw(_) => Own::Only(&["cell", "rendition"]),
        _ => Own::No,
    },
    profile: Profile::default,
    cands: c08_cands,
    enumerated: c08_enum,
    geom: |rng, _| (rng.range(2, 6), rng.range(1, 4)),
};

// -------------------------------------------------------------------------------------------
// C12 SM / RM
// -------------------------------------------------------------------------------------------

fn c12_cands(rng: &mut Rng, _pre: &Snap, _t: Tier) -> Vec<Cand> {
    use Call::*;
    let mut v = Vec::new();
    let private_modes = [3u32, 5, 6, 7, 25, 1, 2004];
    let ansi_modes = [4u32, 20, 2, 12, 96, 160, 192, 224, 800];
    for m in private_modes {
        both(&mut v, SetMode(vec![m], true));
        both(&mut v, ResetMode(vec![m], true));
    }
    for m in ansi_modes {
        both(&mut v, SetMode(vec![m], false));
        both(&mut v, ResetMode(vec![m], false));
    }
    // lists, repeated set/set, reset/reset
    for _ in 0..12 {
        let private = rng.bool();
        let pool: &[u32] = if private { &private_modes } else { &ansi_modes };
        let n = 1 + rng.usize(3);
        let list: Vec<u32> = (0..n).map(|_| *rng.pick(pool)).collect();
        let a = if rng.bool() { SetMode(list.clone(), private) } else { ResetMode(list.clone(), private) };
        let b = if rng.bool() { SetMode(list.clone(), private) } else { ResetMode(list, private) };
        if let (Some(sa), Some(sb)) = (a.to_seq(), b.to_seq()) {
            v.push(Cand { ops: vec![Op::Feed(format!("{}{}", sa, sb))] });
        }
        v.push(Cand { ops: vec![Op::Api(a), Op::Api(b)] });
    }
    // a `?`-marked sequence that is abandoned or skipped must not make the next SM/RM private,
    // and an unmarked abandoned one must not strip the `?` of the next
    for pre in ["\x1b[?7$p", "\x1b[?25\x18", "\x1b[?1;2\x1a", "\x1b[4$p", "\x1b[20;\x18"] {
        for (m, private) in [(4u32, false), (20, false), (7, false), (25, false), (3, false), (6, true), (25, true), (4, true)] {
            let sw = if rng.bool() { SetMode(vec![m], private) } else { ResetMode(vec![m], private) };
            if let Some(seq) = sw.to_seq() {
                v.push(Cand { ops: vec![Op::Feed(format!("{}{}", pre, seq))] });
            }
        }
    }
    // "erases the screen": nothing written while 132 wide may survive RM ?3 - not even out of
    // sight beyond the restored width (a grow probe follows)
    for _ in 0..3 {
        let (pc, pl) = (_pre.columns, _pre.lines);
        let mut ops: Vec<Op> = vec![Op::Api(SetMode(vec![3], true)), Op::Api(CursorPosition(Some(pl), Some(1)))];
        for _ in 0..rng.below(3) {
            ops.push(Op::Api(if rng.bool() { Index } else { InsertLines(Some(1)) }));
        }
        ops.push(Op::Api(CursorPosition(Some(rng.range(1, pl)), Some(rng.range(pc.min(131) + 1, 132)))));
        ops.push(Op::Api(Draw("Q".into())));
        ops.push(Op::Api(ResetMode(vec![3], true)));
        ops.push(Op::Api(Resize(None, Some(rng.range(133, 140)))));
        v.push(Cand { ops });
    }
    // IRM governs insertion whatever the set in use makes of the characters (CP437 / VAX42 turn
    // zero-width control codes into glyphs) and however many characters one draw() call holds
    for _ in 0..3 {
        let mut ops: Vec<Op> = Vec::new();
        if rng.below(3) != 0 {
            ops.push(Op::Api(DefineCharset((*rng.pick(&["U", "V", "0"])).into(), "(".into())));
        }
        ops.push(Op::Api(if rng.below(4) != 0 { SetMode(vec![4], false) } else { ResetMode(vec![4], false) }));
        ops.push(Op::Api(CursorPosition(Some(rng.range(1, _pre.lines)), Some(rng.range(1, _pre.columns)))));
        ops.push(Op::Api(Draw(gen::mixed_api_string(rng))));
        v.push(Cand { ops });
    }
    // "erases the screen and homes the cursor" in both directions, with a region and origin mode
    // set while in the other width (home is (0,0) afterwards: the region does not survive)
    for _ in 0..3 {
        let mut ops: Vec<Op> = Vec::new();
        let first_set = rng.bool();
        ops.push(Op::Api(if first_set { SetMode(vec![3], true) } else { ResetMode(vec![3], true) }));
        let l = _pre.lines;
        if l >= 2 {
            let t = rng.range(1, l - 1);
            ops.push(Op::Api(SetMargins(Some(t), Some(rng.range(t + 1, l)))));
        }
        if rng.below(3) != 0 {
            ops.push(Op::Api(SetMode(vec![6], true)));
        }
        ops.push(Op::Api(CursorPosition(Some(rng.range(1, l)), Some(rng.range(1, 140)))));
        ops.push(Op::Api(Draw("w".into())));
        ops.push(Op::Api(if first_set { ResetMode(vec![3], true) } else { SetMode(vec![3], true) }));
        if rng.bool() {
            ops.push(Op::Api(if first_set { SetMode(vec![3], true) } else { ResetMode(vec![3], true) }));
        }
        v.push(Cand { ops });
    }
    // "RM restores the previous width": the width remembered by SM ?3 must survive explicit
    // resizes and RM ?3 at other widths until an RM ?3 finds the screen 132 wide again
    for _ in 0..3 {
        let mut ops: Vec<Op> = vec![Op::Api(SetMode(vec![3], true))];
        for _ in 0..1 + rng.below(4) {
            ops.push(match rng.below(5) {
                0 => Op::Api(Resize(None, Some(132))),
                1 => Op::Api(Resize(None, Some(rng.range(1, 140)))),
                2 => Op::Api(SetMode(vec![3], true)),
                _ => Op::Api(ResetMode(vec![3], true)),
            });
        }
        ops.push(Op::Api(Resize(None, Some(132))));
        ops.push(if rng.bool() { Op::Api(ResetMode(vec![3], true)) } else { Op::Feed("\x1b[?3l".into()) });
        v.push(Cand { ops });
    }
    // the three "governing" modes, each switched and then exercised by drawing / newline
    for (m, private) in [(4u32, false), (20, false), (7, true)] {
        for set in [true, false] {
            let sw = if set { SetMode(vec![m], private) } else { ResetMode(vec![m], private) };
            let text = format!("{}{}", gen::text_run(rng, 3), "w");
            v.push(Cand { ops: vec![Op::Api(sw.clone()), Op::Api(Draw(text.clone())), Op::Api(Linefeed), Op::Api(Draw("z".into()))] });
            if let Some(seq) = sw.to_seq() {
                v.push(Cand { ops: vec![Op::Feed(format!("{}w\nz", seq))] });
            }
        }
    }
    // interleavings with DECSC/DECRC, resize and drawing
    for _ in 0..6 {
        let m = *rng.pick(&[3u32, 5, 6, 7, 25]);
        let mut ops = vec![Op::Api(SaveCursor), Op::Api(SetMode(vec![m], true))];
        if rng.bool() {
            ops.push(Op::Api(Draw("w".into())));
        }
        if rng.bool() {
            ops.push(Op::Api(Resize(Some(rng.range(1, 8)), Some(rng.range(1, 12)))));
        }
        ops.push(Op::Api(RestoreCursor));
        ops.push(Op::Api(ResetMode(vec![m], true)));
        v.push(Cand { ops });
    }
    v
}

fn c12_enum(chk: &StepCheck, cx: &mut Ctx) {
    let geoms: [(u32, u32); 2] = [(3, 3), (5, 4)];
    let nstates = if cx.quick() { 3 } else { 8 };
    let prof = Profile::default();
    let mut complete = true;
    'outer: for (c, l) in geoms {
        for st in 0..nstates {
            let mut rng = Rng::new(1000 + st as u64 * 17 + c as u64);
            let setup = gen::setup(&mut rng, c, l, &prof);
            if !cx.begin_group(&format!("mode-enum {}x{} state {}", c, l, st)) {
                continue;
            }
            let (base, pre) = match reach(cx, c, l, &setup) {
                Some(x) => x,
                None => {
                    complete = false;
                    continue;
                }
            };
            // chunks keep the candidate vector small
            let mut n0 = 0u32;
            while n0 <= 9999 {
                let mut cands = Vec::new();
                for n in n0..(n0 + 500).min(10000) {
                    if !cx.mine(n as u64 + st as u64) {
                        continue;
                    }
                    for private in [false, true] {
                        both(&mut cands, Call::SetMode(vec![n], private));
                        both(&mut cands, Call::ResetMode(vec![n], private));
                    }
                    // "recorded without any effect": with mode n set, the supported modes must
                    // still act exactly as documented - the 132-column round trip (erase, home,
                    // geometry, cursor back inside) and an origin-mode / reverse-video switch are
                    // judged in full after it (first state only: the probe does not depend on it)
                    if st == 0 {
                        for private in [false, true] {
                            cands.push(Cand {
                                ops: vec![
                                    Op::Api(Call::SetMode(vec![n], private)),
                                    Op::Api(Call::SetMode(vec![3], true)),
                                    Op::Api(Call::Draw("w".into())),
                                    Op::Api(Call::CursorToColumn(Some(100))),
                                    Op::Api(Call::ResetMode(vec![3], true)),
                                    Op::Api(Call::SetMode(vec![6, 5], true)),
                                    Op::Api(Call::ResetMode(vec![5, 6], true)),
                                ],
                            });
                        }
                    }
                }
                fan_out(cx, chk.id, &chk.owns, c, l, &setup, &base, &pre, &cands);
                n0 += 500;
                if cx.used() > 0.75 || cx.out_of_time() {
                    complete = false;
                    break 'outer;
                }
            }
        }
    }
    if complete {
        cx.stats.exhaustive_parts.insert(format!(
            "every mode number 0..=9999 x {{private, ANSI}} x {{SM, RM}} x {{API, parser}} from {} zoo states on each of {:?}; with each of them set, the DECCOLM round trip and a DECOM/DECSCNM switch judged in full",
            nstates, geoms
        ));
    }
}

pub static C12: StepCheck = StepCheck {
    id: "C12",
    rule: "per-step Hoare monitor: mode set, cursor, geometry, cells, rendition, hidden flag after SM/RM vs mode-set bookkeeping plus the documented side-effect table (DECTCEM, DECOM home, DECSCNM reverse + all rows dirty, DECCOLM 132/restore + erase + home; every other (number, private) pair: mode set only).",
    required: &["step-judged", "margins", "DECOM"],
    owns: |c, _| match c {
        Call::Draw(_) | Call::Linefeed | Call::Index => Own::Full, // "IRM, LNM and DECAWM govern insertion, newline and autowrap"
        Call::Resize(..) => Own::Only(&["cell"]), // grow probe: what DECCOLM erased must not come back
        _ => {
            if c.owner() == "C12" {
                Own::Full
            } else {
                Own::No
            }
        }
    },
    profile: || Profile { pending_wrap: 35, irm: 25, ..Default::default() },
    cands: c12_cands,
    enumerated: c12_enum,
    geom: small_geom,
};

// -------------------------------------------------------------------------------------------
// C13 ICH / DCH
// -------------------------------------------------------------------------------------------

fn edit_alphabet(c: u32) -> Vec<Op> {
    use Call::*;
    let mut ns = vec![None, Some(0), Some(1), Some(2), Some(c)];
    ns.dedup();
    let mut v = Vec::new();
    for n in &ns {
        v.push(Op::Api(InsertCharacters(*n)));
        v.push(Op::Api(DeleteCharacters(*n)));
        v.push(Op::Api(EraseCharacters(*n)));
    }
    for s in [0u32, 1, 2] {
        v.push(Op::Api(EraseInLine(Some(s))));
    }
    v.push(Op::Api(Draw("x".into())));
    v
}

fn c13_cands(rng: &mut Rng, pre: &Snap, _t: Tier) -> Vec<Cand> {
    use Call::*;
    let c = pre.columns;
    let mut v = Vec::new();
    let pc = params_all(c);
    for n in sample_params(&pc, c <= 12, rng) {
        both(&mut v, InsertCharacters(n));
        both(&mut v, DeleteCharacters(n));
    }
    // counts chosen relative to the CONTENT of the cursor row: the shift that puts a particular
    // stored cell (a glyph, the lead or the placeholder of a double-width character) exactly on
    // the last column, one beyond it, exactly on the cursor, one before it
    {
        let x = pre.cx.min(c.saturating_sub(1));
        if let Some(row) = pre.grid.get(pre.cy as usize) {
            let ks: Vec<u32> = (x + 1..c).filter(|k| row.get(*k as usize).map(|cell| cell.text != " ").unwrap_or(false)).collect();
            let mut picks: Vec<u32> = Vec::new();
            if let (Some(a), Some(b)) = (ks.first(), ks.last()) {
                picks.push(*a);
                picks.push(*b);
                for _ in 0..3 {
                    picks.push(*rng.pick(&ks));
                }
            }
            picks.sort();
            picks.dedup();
            for k in picks {
                for d in [0u32, 1] {
                    both(&mut v, InsertCharacters(Some(c - 1 - k + d)));
                    both(&mut v, DeleteCharacters(Some(k - x + d)));
                    if k - x >= 1 + d {
                        both(&mut v, DeleteCharacters(Some(k - x - d)));
                    }
                }
            }
        }
    }
    // random edit sequences on the same row, then grow by two columns to expose hidden cells
    let alpha = edit_alphabet(c);
    for _ in 0..20 {
        let n = 1 + rng.usize(4);
        let mut ops: Vec<Op> = Vec::new();
        if rng.below(3) == 0 {
            ops.push(Op::Api(SetMode(vec![4], false)));
        }
        for _ in 0..n {
            ops.push(rng.pick(&alpha).clone());
            if rng.below(4) == 0 {
                ops.push(Op::Api(CursorToColumn(Some(rng.range(1, c)))));
            }
        }
        ops.push(Op::Api(Resize(None, Some(c + 2))));
        v.push(Cand { ops });
    }
    // same through the parser
    for _ in 0..8 {
        let mut s = String::new();
        for _ in 0..1 + rng.usize(4) {
            let n = *rng.pick(&pc);
            let f = *rng.pick(&['@', 'P']);
            s.push_str(&format!("\x1b[{}{}", n.map(|x| x.to_string()).unwrap_or_default(), f));
        }
        v.push(Cand { ops: vec![Op::Feed(s), Op::Api(Resize(None, Some(c + 2)))] });
    }
    v
}

fn c13_enum(chk: &StepCheck, cx: &mut Ctx) {
    if modes_sweep(chk, cx, 0.25) {
        cx.stats.exhaustive_parts.insert("every mode number 0..=130 and 40 numbers other terminals define, private and ANSI, set on a dense 5x3 screen: the check's candidates judged from three cursor positions".into());
    }
    // whatever a cell holds, it travels with the shift: every Unicode scalar value as the
    // right-most content of a row (default rendition), then DCH 1 / ICH 1 at column 0
    let done = unicode_sweep(chk, cx, 6, 1, &[], "shift", 0.4, &|ch| {
        vec![Cand { ops: vec![Op::Api(Call::Draw(format!("ab{}", ch))), Op::Api(Call::CursorPosition(Some(1), Some(1))), Op::Api(if (ch as u32) % 2 == 0 { Call::DeleteCharacters(Some(1)) } else { Call::InsertCharacters(Some(1)) })] }]
    });
    if done {
        cx.stats.exhaustive_parts.insert("every Unicode scalar value as the right-most content of a row, then DCH 1 / ICH 1 at column 0 (6x1 screen)".into());
    }
    let maxlen = if cx.quick() { 2 } else { 3 };
    let prof = Profile { sparse_rows: 50, no_resize: true, irm: 25, ..Default::default() };
    let mut complete = true;
    let mut idx = 0u64;
    'outer: for c in 1..=5u32 {
        let alpha = edit_alphabet(c);
        // all sequences up to maxlen (+1 via the candidates' own first op) over the alphabet
        let mut seqs: Vec<Vec<Op>> = vec![vec![]];
        let mut frontier: Vec<Vec<Op>> = vec![vec![]];
        for _ in 0..maxlen {
            let mut next = Vec::new();
            for s in &frontier {
                for a in &alpha {
                    let mut t = s.clone();
                    t.push(a.clone());
                    next.push(t);
                }
            }
            seqs.extend(next.iter().cloned());
            frontier = next;
        }
        for x in 0..=c {
            for rowkind in 0..3 {
                idx += 1;
                if !cx.begin_group(&format!("edit-enum c={} x={} kind={}", c, x, rowkind)) {
                    continue;
                }
                let mut rng = Rng::new(idx * 13 + 5);
                let mut setup = gen::setup(&mut rng, c, 2, &prof);
                setup.push(Op::Api(Call::SetMargins(None, None)));
                setup.push(Op::Api(Call::ResetMode(vec![6], true)));
                match rowkind {
                    0 => {
                        // never-written row
                        setup.push(Op::Api(Call::CursorPosition(Some(1), Some(1))));
                        setup.push(Op::Api(Call::DeleteLines(Some(1))));
                    }
                    1 => setup.push(Op::Api(Call::Display)), // materialised
                    _ => {}
                }
                if x == c {
                    setup.push(Op::Api(Call::CursorPosition(Some(1), Some(c))));
                    setup.push(Op::Api(Call::Draw(gen::marker(c - 1, 0, c).to_string())));
                } else {
                    setup.push(Op::Api(Call::CursorPosition(Some(1), Some(x + 1))));
                }
                let (base, pre) = match reach(cx, c, 2, &setup) {
                    Some(v) => v,
                    None => {
                        complete = false;
                        continue;
                    }
                };
                let mut cands = Vec::new();
                for (i, s) in seqs.iter().enumerate() {
                    if s.is_empty() || !cx.mine(i as u64 + idx) {
                        continue;
                    }
                    let mut ops = s.clone();
                    ops.push(Op::Api(Call::Resize(None, Some(c + 2))));
                    cands.push(Cand { ops });
                }
                fan_out(cx, chk.id, &chk.owns, c, 2, &setup, &base, &pre, &cands);
                if cx.used() > 0.7 || cx.out_of_time() {
                    complete = false;
                    break 'outer;
                }
            }
        }
    }
    if complete {
        cx.stats.exhaustive_parts.insert(format!(
            "all sequences of length <= {} over {{ICH n, DCH n, ECH n (n in absent,0,1,2,columns), EL 0/1/2, draw}} on one row, columns 1..=5, cursor at every column incl. pending wrap, row never-written / written / materialised, each followed by growing the screen by two columns",
            maxlen
        ));
    }
}

pub static C13: StepCheck = StepCheck {
    id: "C13",
    rule: "per-step Hoare monitor: the cursor row after ICH/DCH vs list-splice semantics on the visible row (min(n, columns-x) cells, blanks are default cells, attributes travel), every other row/cursor/component identical; the reference is applied to the visible pre-state of every step, so a character parked outside the grid by one edit is caught when it re-enters; every sequence ends with a 2-column grow whose new cells must be blank.",
    required: &["step-judged", "pending-wrap", "blank-row", "IRM"],
    owns: |c, _| match c {
        Call::InsertCharacters(_) | Call::DeleteCharacters(_) => Own::Full,
        Call::Resize(..) => Own::Only(&["cell"]),
        _ => Own::No,
    },
    profile: || Profile { sparse_rows: 50, irm: 25, pending_wrap: 30, wide: 8, ..Default::default() },
    cands: c13_cands,
    enumerated: c13_enum,
    geom: |rng, tier| {
        let r = rng.below(100);
        if r < 64 {
            (rng.range(1, 8), rng.range(1, 3))
        } else if r < 72 {
            // very wide, very short: row operations beyond every width a fast path might key on
            (rng.range(100, 170), rng.range(1, 2))
        } else {
            gen::pick_geom(rng, tier)
        }
    },
};

// -------------------------------------------------------------------------------------------
// C14 DECSC / DECRC
// -------------------------------------------------------------------------------------------

fn c14_mid_op(rng: &mut Rng, c: u32, l: u32) -> Call {
    use Call::*;
    match rng.below(16) {
        0 => CursorPosition(gen::param(rng, l), gen::param(rng, c)),
        1 => CursorForward(gen::param(rng, c)),
        2 => CursorDown(gen::param(rng, l)),
        3 => Sgr(gen::rendition(rng)),
        4 => ShiftOut,
        5 => ShiftIn,
        6 => DefineCharset((*rng.pick(&["B", "0", "U", "V"])).into(), (*rng.pick(&["(", ")"])).into()),
        7 => SetMode(vec![*rng.pick(&[6u32, 7, 25, 5])], true),
        8 => ResetMode(vec![*rng.pick(&[6u32, 7, 25, 5])], true),
        9 => SetMargins(gen::param(rng, l), gen::param(rng, l)),
        10 => Resize(Some(rng.range(1, l + 2)), Some(rng.range(1, c + 2))),
        11 => Draw(gen::text_run(rng, 4)),
        12 => CursorToColumn(Some(c)),
        13 => Reset,
        14 => CursorUp(gen::param(rng, l)),
        _ => Sgr(vec![0]),
    }
}

fn c14_cands(rng: &mut Rng, pre: &Snap, _t: Tier) -> Vec<Cand> {
    use Call::*;
    let (c, l) = (pre.columns, pre.lines);
    let mut v = Vec::new();
    both(&mut v, SaveCursor);
    both(&mut v, RestoreCursor);
    // nested saves around a size excursion that returns to EXACTLY the earlier size: save, grow,
    // move into the new area, save again, back to the old size, restore twice
    for _ in 0..3 {
        let (gl, gc) = (rng.range(0, 4), rng.range(0, 4));
        let mut calls: Vec<Call> = vec![SaveCursor, Resize(Some(l + gl), Some(c + gc))];
        calls.push(CursorPosition(Some(rng.range(l, l + gl + 1)), Some(rng.range(c, c + gc + 1))));
        if rng.bool() {
            calls.push(Draw("w".into()));
        }
        calls.push(SaveCursor);
        calls.push(Resize(Some(l), Some(c)));
        calls.push(RestoreCursor);
        calls.push(RestoreCursor);
        v.push(Cand { ops: calls.into_iter().map(Op::Api).collect() });
    }
    // "clamped into the current screen and scrolling region": the position is saved at an
    // extreme place (last row / bottom margin, last or pending-wrap column, with DECOM on or
    // off), then region, origin mode, autowrap and size change under the savepoint
    for _ in 0..8 {
        let mut calls: Vec<Call> = Vec::new();
        if rng.bool() && l >= 2 {
            let t = rng.range(1, l - 1);
            calls.push(SetMargins(Some(t), Some(rng.range(t + 1, l))));
        }
        if rng.bool() {
            calls.push(SetMode(vec![6], true));
        }
        calls.push(CursorPosition(Some(if rng.below(3) == 0 { rng.range(1, l) } else { l }), Some(if rng.below(4) == 0 { rng.range(1, c) } else { c })));
        if rng.below(3) != 0 {
            calls.push(Draw("w".into()));
        }
        calls.push(SaveCursor);
        for _ in 0..1 + rng.below(3) {
            calls.push(match rng.below(7) {
                0 => ResetMode(vec![6], true),
                1 => SetMode(vec![6], true),
                2 if l >= 2 => {
                    let t = rng.range(1, l - 1);
                    SetMargins(Some(t), Some(rng.range(t + 1, l)))
                }
                3 => SetMargins(None, None),
                4 => Resize(Some(rng.range(1, l)), Some(rng.range(1, c))),
                5 => ResetMode(vec![7], true),
                _ => CursorPosition(Some(1), Some(1)),
            });
        }
        calls.push(RestoreCursor);
        v.push(Cand { ops: calls.into_iter().map(Op::Api).collect() });
    }
    for _ in 0..24 {
        let k = rng.usize(5);
        let m = rng.usize(5);
        let via_parser = rng.below(3) == 0;
        let mut calls: Vec<Call> = Vec::new();
        for _ in 0..k {
            // make each saved state distinct from the previous one
            calls.push(CursorPosition(Some(rng.range(1, l)), Some(rng.range(1, c))));
            calls.push(Sgr(gen::rendition(rng)));
            if rng.below(3) == 0 {
                calls.push(if rng.bool() { ShiftOut } else { ShiftIn });
            }
            if rng.below(4) == 0 {
                calls.push(Draw(gen::marker(c - 1, 0, c).to_string()));
            }
            calls.push(SaveCursor);
        }
        for _ in 0..rng.usize(6) {
            calls.push(c14_mid_op(rng, c, l));
        }
        for _ in 0..m {
            calls.push(RestoreCursor);
        }
        if via_parser {
            let mut ops = Vec::new();
            let mut s = String::new();
            for call in &calls {
                match call.to_seq() {
                    Some(q) => s.push_str(&q),
                    None => {
                        if !s.is_empty() {
                            ops.push(Op::Feed(std::mem::take(&mut s)));
                        }
                        ops.push(Op::Api(call.clone()));
                    }
                }
            }
            if !s.is_empty() {
                ops.push(Op::Feed(s));
            }
            v.push(Cand { ops });
        } else {
            v.push(Cand { ops: calls.into_iter().map(Op::Api).collect() });
        }
    }
    v
}

/// "a stack": more levels than any fixed-size buffer or small counter would hold
fn c14_enum(chk: &StepCheck, cx: &mut Ctx) {
    if modes_sweep(chk, cx, 0.25) {
        cx.stats.exhaustive_parts.insert("every mode number 0..=130 and 40 numbers other terminals define, private and ANSI, set on a dense 5x3 screen: the check's candidates judged from three cursor positions".into());
    }
    // (every judged step snapshots the whole stack, so the cost is quadratic in the depth: the
    // fully judged nesting stays moderate, and a much deeper stack is built unjudged below)
    // Kept small on purpose (600 / 1500 levels): LIFO order level by level. Caps and narrow counters
    // anywhere up to 70 000 are the business of the "very deep stack" case below, whose first judged
    // push already fails if anything was dropped on the way.
    let depth: u32 = if cx.quick() { 600 } else { 1500 };
    for (i, via_parser) in [false, true].iter().enumerate() {
        if !cx.mine(i as u64) || !cx.begin_group(&format!("deep nesting {} parser={}", depth, via_parser)) {
            continue;
        }
        let (c, l) = (7u32, 5u32);
        if let Some((base, pre)) = reach(cx, c, l, &[]) {
            let mut ops: Vec<Op> = Vec::new();
            for k in 0..depth {
                // every level distinct from its neighbours
                let (y, x) = (1 + k % l, 1 + (k / l) % c);
                if *via_parser {
                    ops.push(Op::Feed(format!("\x1b[{};{}H\x1b[{}m\x1b7", y, x, 31 + k % 7)));
                } else {
                    ops.push(Op::Api(Call::CursorPosition(Some(y), Some(x))));
                    ops.push(Op::Api(Call::Sgr(vec![31 + k % 7])));
                    ops.push(Op::Api(Call::SaveCursor));
                }
            }
            for _ in 0..depth + 2 {
                ops.push(if *via_parser { Op::Feed("\x1b8".into()) } else { Op::Api(Call::RestoreCursor) });
            }
            fan_out(cx, chk.id, &chk.owns, c, l, &[], &base, &pre, &[Cand { ops }]);
            cx.stats.exhaustive_parts.insert(format!("save^{} . restore^{} with pairwise distinct levels, API and parser", depth, depth + 2));
        }
    }
    // a stack deeper than any 16-bit counter: 70 000 levels pushed without judging (setup), then
    // the next pushes and pops judged in full
    if cx.mine(2) && cx.begin_group("very deep stack") {
        let (c, l) = (7u32, 5u32);
        let mut setup: Vec<Op> = Vec::new();
        for k in 0..70_000u32 {
            setup.push(Op::Api(Call::CursorPosition(Some(1 + k % l), Some(1 + (k / l) % c))));
            setup.push(Op::Api(Call::SaveCursor));
        }
        if let Some((base, pre)) = reach(cx, c, l, &setup) {
            let ops = vec![
                Op::Api(Call::Sgr(vec![1, 31])),
                Op::Api(Call::SaveCursor),
                Op::Api(Call::CursorPosition(Some(1), Some(1))),
                Op::Api(Call::RestoreCursor),
                Op::Api(Call::RestoreCursor),
                Op::Api(Call::RestoreCursor),
                Op::Api(Call::RestoreCursor),
            ];
            fan_out(cx, chk.id, &chk.owns, c, l, &setup, &base, &pre, &[Cand { ops }]);
            cx.stats.exhaustive_parts.insert("a saved stack of 70 000 levels (built unjudged), then one more push and four pops judged in full".into());
        }
    }
    // screens whose dimensions do not fit in 16 bits (round 13): a savepoint far down / far right,
    // then a region or a size that agrees with the old one in its low 16 bits (or is off by one,
    // or is just small), then DECRC - the clamp into the CURRENT screen and region must happen
    // whatever two geometries look alike in a packed or narrowed key
    for (gi, (c, l)) in [(3u32, 70_000u32), (70_000, 2)].iter().enumerate() {
        if !cx.mine(3 + gi as u64) || !cx.begin_group(&format!("beyond 16 bits {}x{}", c, l)) {
            continue;
        }
        let (c, l) = (*c, *l);
        if let Some((base, pre)) = reach(cx, c, l, &[]) {
            let big = c.max(l);
            let low = big - 65_536; // same low 16 bits as `big`
            let mut cands: Vec<Cand> = Vec::new();
            let far = 60_000u32;
            let goto = if l > c { Call::CursorPosition(Some(far), Some(2)) } else { Call::CursorPosition(Some(1), Some(far)) };
            for n in [low - 1, low, low + 1, 100, 65_535, 65_536, 65_537] {
                // region with the bottom at n (DECSTBM takes what the parser could deliver and more
                // through the API; the region is clamped to the screen anyway)
                if l > c {
                    cands.push(Cand { ops: vec![Op::Api(goto.clone()), Op::Api(Call::SaveCursor), Op::Api(Call::SetMargins(Some(2), Some(n))), Op::Api(Call::RestoreCursor), Op::Api(Call::RestoreCursor)] });
                }
                // the size itself shrunk to n in the long dimension
                let rs = if l > c { Call::Resize(Some(n), Some(c)) } else { Call::Resize(Some(l), Some(n)) };
                cands.push(Cand { ops: vec![Op::Api(goto.clone()), Op::Api(Call::Sgr(vec![1, 33])), Op::Api(Call::SaveCursor), Op::Api(rs), Op::Api(Call::RestoreCursor), Op::Api(Call::RestoreCursor)] });
            }
            fan_out(cx, chk.id, &chk.owns, c, l, &[], &base, &pre, &cands);
            cx.stats.exhaustive_parts.insert("3x70000 and 70000x2 screens: savepoint at 60 000, then a region / a size equal to the old one modulo 65 536 (+-1), 100, 65 535..65 537, then DECRC twice".into());
        }
    }
}

pub static C14: StepCheck = StepCheck {
    id: "C14",
    rule: "per-step Hoare monitor over histories save^k . ops . restore^m (k,m <= 4; ops: movement, SGR, SO/SI, designation, SM/RM, DECSTBM, resize, drawing, RIS): DECSC must push exactly the observable cursor state (position, rendition, visibility, G0/G1/shift, DECOM, DECAWM) and DECRC must pop it (position clamped into screen and region, one-way re-enabling of DECOM/DECAWM, empty stack: home + DECOM off); every other call must leave the saved stack untouched (clause `saved`), grid/margins/tab stops unchanged by save/restore.",
    required: &["step-judged", "saved-cursor", "margins"],
    owns: |c, _| match c {
        Call::SaveCursor | Call::RestoreCursor => Own::Full,
        _ => Own::Only(&["saved"]),
    },
    profile: || Profile { saved: 50, charset8: 25, ..Default::default() },
    cands: c14_cands,
    enumerated: c14_enum,
    geom: small_geom,
};

// -------------------------------------------------------------------------------------------
// C16 resize
// -------------------------------------------------------------------------------------------

fn c16_cands(rng: &mut Rng, pre: &Snap, _t: Tier) -> Vec<Cand> {
    use Call::*;
    let (c, l) = (pre.columns, pre.lines);
    let mut v = Vec::new();
    let grow = |nl: u32, nc: u32| Op::Api(Resize(Some(nl + 2), Some(nc + 2)));
    // a width remembered by DECCOLM is just a number: resizing to exactly that width later - in or
    // out of 132-column mode, after an RM ?3 at another width - is an ordinary resize
    for _ in 0..3 {
        let w2 = rng.range(c + 1, c + 30);
        let mut ops = vec![Op::Api(SetMode(vec![3], true)), Op::Api(Resize(None, Some(w2)))];
        if rng.bool() {
            ops.push(Op::Api(ResetMode(vec![3], true)));
        }
        ops.push(Op::Api(CursorPosition(Some(1), Some(1))));
        ops.push(Op::Api(Draw("$keep".into())));
        ops.push(Op::Api(Resize(None, Some(c))));
        ops.push(Op::Api(Resize(None, Some(c + 3))));
        v.push(Cand { ops });
    }
    if c <= 8 && l <= 5 {
        for nl in 1..=l + 2 {
            for nc in 1..=c + 2 {
                v.push(Cand { ops: vec![Op::Api(Resize(Some(nl), Some(nc))), grow(nl, nc)] });
            }
        }
    } else {
        for nl in [1, l - 1, l, l + 1, l + 2, rng.range(1, l + 2)] {
            for nc in [1, c - 1, c, c + 1, c + 2, rng.range(1, c + 2)] {
                if nl >= 1 && nc >= 1 {
                    v.push(Cand { ops: vec![Op::Api(Resize(Some(nl), Some(nc))), grow(nl, nc)] });
                }
            }
        }
    }
    // absent arguments
    v.push(Cand { ops: vec![Op::Api(Resize(None, None))] });
    v.push(Cand { ops: vec![Op::Api(Resize(None, Some(c + 1))), Op::Api(Resize(Some(l + 1), None))] });
    // the reappearance probe on the state as it is (whatever the setup tried to hide)
    v.push(Cand { ops: vec![grow(l, c)] });
    // resize sequences of length <= 3
    for _ in 0..12 {
        let n = 2 + rng.usize(2);
        let mut ops = Vec::new();
        let (mut cl, mut cc) = (l, c);
        for _ in 0..n {
            cl = rng.range(1, l + 2);
            cc = rng.range(1, c + 2);
            ops.push(Op::Api(Resize(Some(cl), Some(cc))));
        }
        ops.push(grow(cl, cc));
        v.push(Cand { ops });
    }
    // DECCOLM round trips
    v.push(Cand { ops: vec![Op::Api(SetMode(vec![3], true)), Op::Api(ResetMode(vec![3], true)), grow(l, c)] });
    v.push(Cand { ops: vec![Op::Feed("\x1b[?3h\x1b[?3l".into()), grow(l, c)] });
    v.push(Cand { ops: vec![Op::Api(SetMode(vec![3], true)), Op::Api(Draw("wide".into())), Op::Api(Resize(Some(l), Some(c))), grow(l, c)] });
    v
}

pub static C16: StepCheck = StepCheck {
    id: "C16",
    rule: "per-step Hoare monitor: full snapshot after resize(lines, columns) vs reference crop/extend (rows dropped from the top, columns from the right, new cells blank default, margins None, every row dirty, cursor inside the new bounds, same size = complete no-op incl. dirty), every judged resize followed by a grow(+2,+2) whose new area must be blank (reappearance probe); target sizes 1..=max+2 in both dimensions for screens <= 8x5, boundary sizes otherwise, resize sequences <= 3, DECCOLM round trips.",
    required: &["step-judged", "margins", "pending-wrap", "wide-char"],
    owns: |c, _| match c {
        Call::Resize(..) => Own::Full,
        Call::SetMode(m, p) | Call::ResetMode(m, p) if m.iter().any(|x| (*p && *x == 3) || (!*p && *x == 96)) => Own::Full,
        _ => Own::No,
    },
    profile: || Profile { wide: 8, pending_wrap: 30, margins: 60, ..Default::default() },
    cands: c16_cands,
    enumerated: no_enum,
    geom: |rng, tier| {
        if rng.below(100) < 75 {
            (rng.range(1, 8), rng.range(1, 5))
        } else {
            gen::pick_geom(rng, tier)
        }
    },
};

// -------------------------------------------------------------------------------------------
// C18 tab stops
// -------------------------------------------------------------------------------------------

fn c18_cands(rng: &mut Rng, pre: &Snap, _t: Tier) -> Vec<Cand> {
    use Call::*;
    let c = pre.columns;
    let mut v = Vec::new();
    both(&mut v, Tab);
    both(&mut v, SetTabStop);
    for sel in [None, Some(0), Some(1), Some(2), Some(3), Some(4), Some(9999)] {
        both(&mut v, ClearTabStop(sel));
    }
    // HTS/TBC sequences followed by a walk with HT across the row
    for _ in 0..16 {
        let mut ops = Vec::new();
        for _ in 0..rng.usize(7) {
            ops.push(Op::Api(CursorToColumn(Some(rng.range(1, c)))));
            match rng.below(5) {
                0 => ops.push(Op::Api(ClearTabStop(Some(*rng.pick(&[0u32, 3, 0, 0, 2]))))),
                1 => ops.push(Op::Api(ClearTabStop(None))),
                _ => ops.push(Op::Api(SetTabStop)),
            }
        }
        // width change between setting and using a stop
        match rng.below(5) {
            0 => ops.push(Op::Api(Resize(None, Some(rng.range(1, c + 3))))),
            1 => {
                ops.push(Op::Api(Resize(None, Some(c + 4))));
                ops.push(Op::Api(CursorToColumn(Some(c + 3))));
                ops.push(Op::Api(SetTabStop));
                ops.push(Op::Api(Resize(None, Some(c))));
            }
            2 => {
                ops.push(Op::Api(SetMode(vec![3], true)));
                ops.push(Op::Api(CursorToColumn(Some(100))));
                ops.push(Op::Api(SetTabStop));
                ops.push(Op::Api(ResetMode(vec![3], true)));
            }
            _ => {}
        }
        ops.push(Op::Api(CarriageReturn));
        for _ in 0..(c.min(24) + 1) {
            ops.push(Op::Api(Tab));
        }
        v.push(Cand { ops });
    }
    // a stop (HTS-set or default) must survive narrowing and widening, also with content on screen
    for _ in 0..4 {
        let wide = c + 4 + rng.range(0, 20);
        let stop = rng.range(c, wide - 1);
        let mut ops = vec![Op::Api(Draw("t".into())), Op::Api(Resize(None, Some(wide))), Op::Api(CursorToColumn(Some(stop + 1))), Op::Api(SetTabStop)];
        ops.push(Op::Api(Resize(None, Some(rng.range(1, c)))));
        if rng.bool() {
            ops.push(Op::Api(Draw("n".into())));
        }
        ops.push(Op::Api(Resize(None, Some(wide))));
        ops.push(Op::Api(CarriageReturn));
        for _ in 0..(wide / 8 + 4) {
            ops.push(Op::Api(Tab));
        }
        v.push(Cand { ops });
    }
    // edits, width changes (also back to an earlier width) and resets with HT walks ON THE MAIN
    // LINE in between: whatever an implementation caches about the stop set is built at every
    // stage and must still be right at the next
    for _ in 0..6 {
        let mut ops: Vec<Op> = Vec::new();
        let mut widths: Vec<u32> = vec![c];
        let mut w = c;
        for _ in 0..3 + rng.below(6) {
            match rng.below(9) {
                0 | 1 => {
                    // walk
                    ops.push(Op::Api(CarriageReturn));
                    for _ in 0..1 + rng.below(4) {
                        ops.push(Op::Api(Tab));
                    }
                }
                2 => {
                    let x = match rng.below(5) {
                        0 => 1,
                        1 => w,
                        2 => 8 * rng.range(0, w / 8) + 1,
                        3 => 129,
                        _ => rng.range(1, w),
                    };
                    ops.push(Op::Api(CursorToColumn(Some(x))));
                    if rng.below(3) == 0 {
                        ops.push(Op::Api(Draw("w".into())));
                    }
                    ops.push(Op::Api(if rng.below(3) == 0 { ClearTabStop(Some(0)) } else { SetTabStop }));
                }
                3 => ops.push(Op::Api(ClearTabStop(Some(*rng.pick(&[0u32, 3, 1]))))),
                4 | 5 => {
                    w = if rng.bool() { *rng.pick(&widths) } else { rng.range(1, 140) };
                    widths.push(w);
                    ops.push(Op::Api(Resize(None, Some(w))));
                }
                6 => {
                    ops.push(Op::Api(if rng.bool() { SetMode(vec![3], true) } else { ResetMode(vec![3], true) }));
                }
                7 => ops.push(Op::Api(Reset)),
                _ => ops.push(Op::Api(Tab)),
            }
        }
        ops.push(Op::Api(CarriageReturn));
        for _ in 0..18 {
            ops.push(Op::Api(Tab));
        }
        v.push(Cand { ops });
    }
    // "initially and after reset, tab stops sit at every 8th column (< columns)": RIS after the
    // width changed (resize, DECCOLM set / reset), then an HT walk
    for _ in 0..4 {
        let mut ops: Vec<Op> = Vec::new();
        match rng.below(4) {
            0 => ops.push(Op::Api(SetMode(vec![3], true))),
            1 => {
                ops.push(Op::Api(SetMode(vec![3], true)));
                ops.push(Op::Api(Resize(None, Some(rng.range(9, 120)))));
                ops.push(Op::Api(ResetMode(vec![3], true)));
            }
            2 => ops.push(Op::Api(Resize(None, Some(c + rng.range(1, 40))))),
            _ => {
                ops.push(Op::Api(SetMode(vec![3], true)));
                ops.push(Op::Api(ResetMode(vec![3], true)));
            }
        }
        ops.push(if rng.bool() { Op::Api(Reset) } else { Op::Feed("\x1bc".into()) });
        for _ in 0..18 {
            ops.push(Op::Api(Tab));
        }
        v.push(Cand { ops });
    }
    // HTS at the pending-wrap column, then HT from the left
    v.push(Cand { ops: vec![Op::Api(CursorToColumn(Some(c))), Op::Api(Draw("p".into())), Op::Api(SetTabStop), Op::Api(CarriageReturn), Op::Api(Tab), Op::Api(Tab), Op::Api(Tab)] });
    v.push(Cand { ops: vec![Op::Feed("\x1bH\r\t\t\x1b[g\r\t\x1b[3g\r\t".into())] });
    v
}

fn c18_enum(chk: &StepCheck, cx: &mut Ctx) {
    if modes_sweep(chk, cx, 0.25) {
        cx.stats.exhaustive_parts.insert("every mode number 0..=130 and 40 numbers other terminals define, private and ANSI, set on a dense 5x3 screen: the check's candidates judged from three cursor positions".into());
    }
    let mut complete = true;
    for w in 1..=140u32 {
        if !cx.mine(w as u64) {
            continue;
        }
        if !cx.begin_group(&format!("tab-enum width {}", w)) {
            continue;
        }
        // default stops after construction
        let sys = crate::sys::Sys::new(w, 1, crate::sys::PK::None);
        let pre = sys.snap();
        let expect = crate::refsem::default_tabstops(w);
        cx.stats.clause("defaults");
        cx.stats.eval(&format!("defaults|w{}", w), true);
        if pre.tabstops != expect {
            let mut case = Case::new("C18", "step", w, 1, crate::sys::PK::Chars);
            case.ops = vec![Op::Api(Call::Bell)];
            cx.violation(crate::core::Viol {
                prop: "C18".into(),
                clause: "defaults".into(),
                op: "new".into(),
                bucket: format!("w{}", if w < 9 { "lt9" } else { "ge9" }),
                detail: format!("width {}: expected default stops {:?}, got {:?}", w, expect, pre.tabstops),
                case,
            });
        }
        // HT from every column incl. pending wrap, default stops and after RIS
        for x in 0..=w {
            let mut setup: Vec<Op> = Vec::new();
            if x % 5 == 4 {
                setup.push(Op::Api(Call::ClearTabStop(Some(3))));
                setup.push(Op::Api(Call::Reset));
            }
            if x == w {
                setup.push(Op::Api(Call::CursorToColumn(Some(w))));
                setup.push(Op::Api(Call::Draw("p".into())));
            } else {
                setup.push(Op::Api(Call::CursorToColumn(Some(x + 1))));
            }
            if let Some((base, pre)) = reach(cx, w, 1, &setup) {
                let mut cands = vec![Cand::api(Call::Tab)];
                if x % 7 == 0 {
                    cands.push(Cand { ops: vec![Op::Feed("\t".into())] });
                }
                fan_out(cx, chk.id, &chk.owns, w, 1, &setup, &base, &pre, &cands);
            }
        }
        if cx.used() > 0.6 || cx.out_of_time() {
            complete = false;
            break;
        }
    }
    if complete {
        cx.stats.exhaustive_parts.insert("every width 1..=140: default stops after construction (and after RIS for every 5th column), HT from every column incl. the pending-wrap column".into());
    }
}

pub static C18: StepCheck = StepCheck {
    id: "C18",
    rule: "per-step Hoare monitor: cursor after HT and stop set after HTS/TBC vs the closed form (nearest stop strictly right, else last column, never beyond; HTS adds the cursor column, TBC 0/absent removes it, 3 clears, others nothing), everything else unchanged; HTS/TBC sequences are followed by an HT walk across the row so the stop set is also observed through behaviour; width changes (resize, DECCOLM) between setting and using a stop.",
    required: &["step-judged", "pending-wrap", "defaults"],
    // only HTS / TBC / RIS may edit the stop set: every other call is judged for that component
    owns: |c, _| if c.owner() == "C18" { Own::Full } else { Own::Only(&["tabstops"]) },
    profile: || Profile { tabs: 60, pending_wrap: 25, ..Default::default() },
    cands: c18_cands,
    enumerated: c18_enum,
    geom: |rng, tier| {
        if rng.below(100) < 60 {
            (rng.range(1, 40), rng.range(1, 3))
        } else {
            gen::pick_geom(rng, tier)
        }
    },
};
