//! Parser-level monitors: C02 (chunking independence), C03 (grammar conformance vs the
//! reference recogniser), C11 (streaming UTF-8 decoding), C19 (OSC titles).

use serde_json::json;

use crate::call::Call;
use crate::checks::{Check, COMMON_ASSUMPTIONS};
use crate::core::{Case, Ctx, Tier, Viol};
use crate::gen;
use crate::refparser::{conforms, RefParser};
use crate::rng::Rng;
use crate::snapshot::Snap;
use crate::sys::{catch, panic_sig, Op, RecSys, Sys, PK};

fn assumptions() -> Vec<String> {
    COMMON_ASSUMPTIONS.iter().map(|s| s.to_string()).collect()
}

// =============================================================================================
// C03
// =============================================================================================

pub struct C03Check;
pub static C03: C03Check = C03Check;

pub const ALPHABET: &[char] = &[
    '\0', '\u{7}', '\u{8}', '\u{9}', '\u{a}', '\u{b}', '\u{c}', '\u{d}', '\u{e}', '\u{f}', '\u{18}', '\u{1a}', '\u{1b}',
    '\u{7f}', '\u{9b}', '\u{9d}', '\u{9c}', '\u{85}', '0', '5', '9', ';', '?', '$', ' ', '>', '#', '%', '(', ')', '[', ']',
    '\\', '@', 'A', 'B', 'C', 'D', 'E', 'F', 'G', 'H', 'J', 'K', 'L', 'M', 'P', 'X', 'a', 'c', 'd', 'e', 'f', 'g', 'h', 'l',
    'm', 'r', '7', '8', 'z', '~', '^', '1', '2', '3', 'R', 'p', 'x', 'Q', 'é', 'コ', '\u{0308}',
    // non-ASCII characters that the general Unicode predicates (is_numeric, is_whitespace,
    // is_alphabetic, is_control) put in the same class as an ASCII character of the grammar
    '\u{b2}', '\u{663}', '\u{2167}', '\u{a0}', '\u{2003}', '\u{2028}', '\u{ff1b}', '\u{ff3b}',
    // ... and characters whose low byte is a byte of the grammar (a recogniser that narrows a
    // code point to u8 confuses them): \ BEL ESC ST CAN ;
    '\u{15c}', '\u{107}', '\u{11b}', '\u{19c}', '\u{118}', '\u{13b}',
];

/// characters beyond U+00FF whose low byte is a byte of the grammar: \ \ BEL BEL ST ESC [ ] CAN ;
pub const ALIASES: [char; 10] = ['\u{15c}', '\u{305c}', '\u{107}', '\u{3007}', '\u{19c}', '\u{11b}', '\u{15b}', '\u{15d}', '\u{118}', '\u{13b}'];

/// reduced alphabet used inside OSC strings (payload depth is capped separately)
pub const OSC_ALPHABET: &[char] = &[';', 'a', '\\', '\u{1b}', '\u{7}', '\u{9c}', '\u{18}', '\u{a}', '0', 'é', ']', ' ', '\u{9b}', '\u{15c}', '\u{107}'];

fn c03_run(cx: &mut Ctx, s: &str, utf8: bool, kind: &str) {
    let full = format!("{}Z", s);
    let mut r = RefParser::new(utf8);
    r.feed(&full);
    let mut sys = RecSys::new(PK::Chars);
    if !utf8 {
        sys.set_utf8(false);
    }
    let res = catch(|| sys.feed(&full));
    let got = sys.events();
    // class of the case: deduplicated reference state path + whether it ends in ground
    let mut path = String::new();
    for ch in r.path.chars() {
        if !path.ends_with(ch) {
            path.push(ch);
        }
    }
    path.truncate(10);
    let nontrivial = r.path.chars().any(|c| c != 'G');
    let key = format!("{}|{}|n{}|{}", path, utf8, r.out.len().min(4), kind);
    cx.stats.eval(&key, nontrivial);
    cx.stats.clause("string-compared");
    cx.stats.sample(&format!("{}|{}", path, utf8), 10, || json!({"input": full, "utf8": utf8, "reference_path": r.path, "events": format!("{:?}", got)}));
    let mk = || {
        let mut c = Case::new("C03", "string", 1, 1, PK::Chars);
        c.ops = vec![Op::Feed(s.to_string())];
        c.aux = json!({ "utf8": utf8 });
        c
    };
    match res {
        Err(p) => {
            cx.violation(Viol {
                prop: "C03".into(),
                clause: "panic".into(),
                op: "feed".into(),
                bucket: panic_sig(&p),
                detail: format!("feeding {:?} (utf8={}) panicked: {} at {}", full, utf8, p.msg, p.loc),
                case: mk(),
            });
        }
        Ok(()) => {
            if let Some(d) = conforms(&r.out, &got) {
                // canonical witness: the shortest prefix on which the logs already diverge
                let chars: Vec<char> = s.chars().collect();
                let mut min_prefix: String = s.to_string();
                // (quadratic: only for inputs of ordinary length - a 70 000-character witness is
                // reported as it is)
                if kind != "replay-min" && chars.len() > 1 && chars.len() <= 600 {
                    for k in 1..chars.len() {
                        let p: String = chars[..k].iter().collect();
                        if c03_diverges(&p, utf8) {
                            min_prefix = p;
                            break;
                        }
                    }
                }
                // signature: reference state classes of the last sequence of that prefix
                let mut r2 = RefParser::new(utf8);
                r2.feed(&min_prefix);
                let pth: Vec<char> = r2.path.chars().collect();
                let mut start = 0;
                for i in 0..pth.len().saturating_sub(1) {
                    if pth[i] == 'G' {
                        start = i + 1;
                    }
                }
                let mut tail = String::new();
                for ch in &pth[start.min(pth.len())..] {
                    if !tail.contains(*ch) {
                        tail.push(*ch);
                    }
                }
                let last = min_prefix.chars().last().map(char_class).unwrap_or("none");
                let mut case = mk();
                case.ops = vec![Op::Feed(min_prefix.clone())];
                cx.violation(Viol {
                    prop: "C03".into(),
                    clause: "event-diff".into(),
                    op: "feed".into(),
                    bucket: format!("{}|last={}|utf8={}", tail, last, utf8),
                    detail: format!("input {:?} (utf8={}): {}\n expected {:?}\n observed {:?}\n shortest diverging prefix: {:?}", full, utf8, d, r.out, got, min_prefix),
                    case,
                });
            }
        }
    }
}

fn char_class(c: char) -> &'static str {
    match c {
        '\u{1b}' => "ESC",
        '\u{7}' => "BEL",
        '\u{9c}' => "ST",
        '\u{9b}' | '\u{9d}' => "C1intro",
        '\u{18}' | '\u{1a}' => "CAN/SUB",
        '\\' => "backslash",
        ';' => "semicolon",
        '0'..='9' => "digit",
        c if (c as u32) < 0x20 => "C0",
        c if c.is_ascii_alphabetic() => "letter",
        c if c.is_ascii() => "punct",
        _ => "non-ascii",
    }
}

/// does the implementation's log for `s` + sentinel differ from the reference (or panic)?
fn c03_diverges(s: &str, utf8: bool) -> bool {
    let full = format!("{}Z", s);
    let mut r = RefParser::new(utf8);
    r.feed(&full);
    let mut sys = RecSys::new(PK::Chars);
    if !utf8 {
        sys.set_utf8(false);
    }
    match catch(|| sys.feed(&full)) {
        Err(_) => true,
        Ok(()) => conforms(&r.out, &sys.events()).is_some(),
    }
}

/// complete, aborted and skipped sequences of every kind the grammar knows
pub fn seq_pool() -> Vec<String> {
    let mut v: Vec<String> = Vec::new();
    for f in "cDEMH78Zq".chars() {
        v.push(format!("\x1b{}", f));
    }
    v.extend(["\x1b#8", "\x1b#3", "\x1b%G", "\x1b%@", "\x1b(0", "\x1b)B", "\x1b(U", "x", "é", "\n", "\r", "\x0e", "\x0f", "\x07"].iter().map(|s| s.to_string()));
    for intro in ["\x1b[", "\u{9b}"] {
        for f in "@ABCDEFGHJKLMPXacdefghlmrzt".chars() {
            v.push(format!("{}{}", intro, f));
            v.push(format!("{}7{}", intro, f));
            if intro.len() == 2 {
                v.push(format!("{}3;4{}", intro, f));
            }
        }
        for body in ["?25", "?1;2", "5;", ";", "1;2;3;4", "?", "38;5;1", " ", ">0"] {
            v.push(format!("{}{}h", intro, body));
            v.push(format!("{}{}\x18", intro, body));
            v.push(format!("{}{}\x1a", intro, body));
            v.push(format!("{}{}$p", intro, body));
            v.push(format!("{}{}\x07m", intro, body));
        }
    }
    for intro in ["\x1b]", "\u{9d}"] {
        for code in ["0", "1", "2", "7", "x"] {
            for term in ["\x07", "\u{9c}", "\x1b\\"] {
                v.push(format!("{}{};t{}", intro, code, term));
            }
        }
        v.push(format!("{}0;a\x1bxb\x07", intro));
        v.push(format!("{}0\x07", intro));
        v.push(format!("{}0;\x07", intro));
        v.push(format!("{}12;q\x07", intro));
    }
    // sequences that other terminals implement and this one must consume without effect: window
    // operations incl. the title stack, reports, soft reset, cursor style, SGR stack, key
    // modifier options, alternate screen / bracketed paste / mouse modes, single shifts, strings
    for s in [
        "\x1b[22t", "\x1b[22;0t", "\x1b[22;1t", "\x1b[22;2t", "\x1b[23t", "\x1b[23;0t", "\x1b[23;1t", "\x1b[23;2t", "\x1b[14t", "\x1b[18t", "\x1b[8;24;80t", "\x1b[6n", "\x1b[?6n", "\x1b[5n",
        "\x1b[0c", "\x1b[>c", "\x1b[=c", "\x1b[!p", "\x1b[\"q", "\x1b[2 q", "\x1b[#{", "\x1b[#}", "\x1b[#P", "\x1b[#Q", "\x1b[>4;2m", "\x1b[>4m", "\x1b[?1049h", "\x1b[?1049l", "\x1b[?47h",
        "\x1b[?47l", "\x1b[?2004h", "\x1b[?1000h", "\x1b[?1006l", "\x1b[?45h", "\x1b[?95h", "\x1b[?117h", "\x1b[s", "\x1b[u", "\x1b[1;5s", "\x1b[3;14$r", "\x1b[1;1;2;2$z", "\x1b[?2026$p", "\x1b6", "\x1b9",
        "\x1b=", "\x1b>", "\x1bN", "\x1bO", "\x1bn", "\x1bo", "\x1b~", "\x1b}", "\x1b|", "\x1bl", "\x1bm",
    ] {
        v.push(s.to_string());
    }
    v
}

/// DFS over all strings whose proper prefixes keep the reference outside ground
fn c03_dfs(cx: &mut Ctx, prefix: &mut String, depth: usize, max: usize, osc_cap: usize, count: &mut u64) -> bool {
    // evaluate this string (both modes)
    if !prefix.is_empty() {
        *count += 1;
        c03_run(cx, prefix, true, "enum");
        c03_run(cx, prefix, false, "enum");
        if *count % 2048 == 0 && (cx.used() > 0.7 || cx.out_of_time()) {
            return false;
        }
    }
    if depth >= max {
        return true;
    }
    let mut r = RefParser::new(true);
    r.feed(prefix);
    if !prefix.is_empty() && r.is_ground() {
        return true; // ground-state pruning: a continuation is a fresh start
    }
    if r.st == crate::refparser::St::Lenient {
        return true;
    }
    let in_osc = matches!(r.st, crate::refparser::St::Osc { .. } | crate::refparser::St::OscEsc { .. });
    let alpha: &[char] = if in_osc { OSC_ALPHABET } else { ALPHABET };
    if in_osc {
        let payload_len = match &r.st {
            crate::refparser::St::Osc { buf, .. } | crate::refparser::St::OscEsc { buf, .. } => buf.chars().count(),
            _ => 0,
        };
        if payload_len >= osc_cap {
            // only terminators beyond the cap
            for c in ['\u{7}', '\u{9c}'] {
                prefix.push(c);
                let ok = c03_dfs(cx, prefix, depth + 1, max, osc_cap, count);
                prefix.pop();
                if !ok {
                    return false;
                }
            }
            return true;
        }
    }
    for c in alpha {
        prefix.push(*c);
        let ok = c03_dfs(cx, prefix, depth + 1, max, osc_cap, count);
        prefix.pop();
        if !ok {
            return false;
        }
    }
    true
}

impl Check for C03Check {
    fn id(&self) -> &'static str {
        "C03"
    }
    fn rule(&self) -> String {
        "event-log conformance: the calls received by a recording ParserListener attached to memterm::parser::Parser (its *_dispatch default methods are inside the observed system) vs an independently written explicit-state recogniser, for input + sentinel 'Z', in UTF-8 and 8-bit mode. Enumerated: all strings over an 87-character class alphabet (15 inside OSC strings) whose proper prefixes keep the reference outside ground, up to length L; plus two-sequence concatenations, random long strings and digit runs of 1..40 digits for every final. distinct = (deduplicated reference state path, mode, number of expected events, workload); non-trivial = the reference left the ground state".into()
    }
    fn assumptions(&self) -> Vec<String> {
        let mut a = assumptions();
        a.push("where the statement does not spell a case out the reference follows the documented pyte recogniser (DESIGN App. A); OSC R / OSC P and multi-character OSC codes are don't-care; Cc characters are ignored in text comparison".into());
        a
    }
    fn required(&self, _t: Tier) -> Vec<&'static str> {
        vec!["string-compared"]
    }
    fn shard(&self, cx: &mut Ctx) {
        let (max, osc_cap) = if cx.quick() { (4, 2) } else { (6, 3) };
        // enumeration, sharded by (first, second) character
        let mut complete = true;
        let mut idx = 0u64;
        let mut count = 0u64;
        'outer: for a in ['\u{1b}', '\u{9b}', '\u{9d}'] {
            for b in ALPHABET {
                idx += 1;
                if !cx.mine(idx) {
                    continue;
                }
                if !cx.begin_group(&format!("enum {:?}{:?}", a, b)) {
                    continue;
                }
                let mut prefix = String::new();
                prefix.push(a);
                // the one-character string itself
                if *b == ALPHABET[0] {
                    c03_run(cx, &prefix, true, "enum");
                    c03_run(cx, &prefix, false, "enum");
                }
                prefix.push(*b);
                if !c03_dfs(cx, &mut prefix, 2, max, osc_cap, &mut count) {
                    complete = false;
                    break 'outer;
                }
            }
        }
        // the dispatch tables called directly (they are public default methods of the listener
        // trait): every final x parameter lists of length 0..=3 x private flag
        if cx.shard == 0 && cx.begin_group("direct dispatch") {
            use memterm::parser_listener::ParserListener;
            for f in (0x20u8..=0x7e).map(|b| b as char) {
                for params in [vec![], vec![0u32], vec![5], vec![5, 12], vec![0, 0], vec![7, 8, 9], vec![9999, 1]] {
                    for private in [false, true] {
                        let mut rec = crate::call::Rec::new();
                        let r = catch(|| rec.csi_dispatch(&f.to_string(), &params, private));
                        let want: Vec<Call> = crate::refparser::ref_dispatch(f, &params, private).into_iter().collect();
                        cx.stats.clause("dispatch-table");
                        cx.stats.eval(&format!("dispatch|{}|n{}|{}", f, params.len(), private), true);
                        let got = rec.ev.clone();
                        let same = r.is_ok() && crate::refparser::norm_log(&got) == crate::refparser::norm_log(&want);
                        if !same {
                            let mut c = Case::new("C03", "dispatch", 1, 1, PK::None);
                            c.aux = json!({"final": f.to_string(), "params": params, "private": private});
                            cx.violation(Viol {
                                prop: "C03".into(),
                                clause: "dispatch-table".into(),
                                op: "csi_dispatch".into(),
                                bucket: format!("{}|n{}", f, params.len()),
                                detail: format!("csi_dispatch({:?}, {:?}, {}): expected {:?}, observed {:?} (panic: {:?})", f, params, private, want, got, r.err().map(|p| p.msg)),
                                case: c,
                            });
                        }
                    }
                }
            }
            // escape_dispatch / basic_dispatch for every character
            for b in 0u8..=0x7e {
                let ch = (b as char).to_string();
                let mut rec = crate::call::Rec::new();
                let _ = catch(|| rec.escape_dispatch(&ch));
                let mut r = RefParser::new(false);
                r.feed(&format!("\x1b{}", ch));
                let want: Vec<Call> = if "[]#%()".contains(b as char) { vec![] } else { r.out.iter().filter_map(|e| if let crate::refparser::Exp::Ev(c) = e { Some(c.clone()) } else { None }).collect() };
                cx.stats.clause("dispatch-table");
                if crate::refparser::norm_log(&rec.ev) != crate::refparser::norm_log(&want) {
                    let mut c = Case::new("C03", "dispatch", 1, 1, PK::None);
                    c.aux = json!({"escape": ch});
                    cx.violation(Viol { prop: "C03".into(), clause: "dispatch-table".into(), op: "escape_dispatch".into(), bucket: format!("0x{:02x}", b), detail: format!("escape_dispatch({:?}): expected {:?}, observed {:?}", ch, want, rec.ev), case: c });
                }
                let mut rec = crate::call::Rec::new();
                let _ = catch(|| rec.basic_dispatch(&ch));
                let mut r = RefParser::new(false);
                r.feed(&ch);
                let want: Vec<Call> = if b < 0x20 && b != 0x1b { r.out.iter().filter_map(|e| if let crate::refparser::Exp::Ev(Call::Draw(_)) = e { None } else if let crate::refparser::Exp::Ev(c) = e { Some(c.clone()) } else { None }).collect() } else { vec![] };
                if crate::refparser::norm_log(&rec.ev) != crate::refparser::norm_log(&want) {
                    let mut c = Case::new("C03", "dispatch", 1, 1, PK::None);
                    c.aux = json!({"basic": ch});
                    cx.violation(Viol { prop: "C03".into(), clause: "dispatch-table".into(), op: "basic_dispatch".into(), bucket: format!("0x{:02x}", b), detail: format!("basic_dispatch({:?}): expected {:?}, observed {:?}", ch, want, rec.ev), case: c });
                }
            }
        }
        // every single character from ground
        if cx.shard == 0 {
            for c in ALPHABET {
                c03_run(cx, &c.to_string(), true, "single");
                c03_run(cx, &c.to_string(), false, "single");
            }
        }
        if complete {
            cx.stats.exhaustive_parts.insert(format!(
                "all strings up to length {} over the class alphabet (OSC payload depth {}) with ground-state pruning, each + sentinel, UTF-8 and 8-bit mode",
                max, osc_cap
            ));
        }
        cx.stats.count("enumerated_strings", count);
        // digit runs longer than any machine integer, for every final
        if cx.begin_group("digit runs") {
            for f in "@ABCDEFGHJKLMPXacdefghlmr".chars() {
                for n in 1..=40usize {
                    if !cx.mine((n as u64) * 31 + f as u64) {
                        continue;
                    }
                    let mut runs = vec![
                        "9".repeat(n),
                        format!("1{}", "0".repeat(n - 1)),
                        (0..n).map(|_| (b'0' + cx.rng.below(10) as u8) as char).collect::<String>(),
                    ];
                    // values around the machine-integer widths (2^k - 1, 2^k, 2^k + small, and
                    // multiples of 2^32 plus a small remainder), with leading zeros
                    let k = [8u32, 15, 16, 31, 32, 33, 48, 63, 64, 65, 96, 100][n % 12];
                    let p: u128 = 1u128 << k;
                    for v in [p - 1, p, p + 1, p + 7, p + 9998, 3 * p + 2, p + (1u128 << 32) + 25] {
                        runs.push(v.to_string());
                    }
                    runs.push(format!("{}{}", "0".repeat(n), p + 5));
                    runs.push(format!("{}7", "0".repeat(n)));
                    for r in runs {
                        c03_run(cx, &format!("\x1b[{}{}", r, f), true, "digits");
                        c03_run(cx, &format!("\x1b[3;{};{}{}", r, r, f), true, "digits");
                        c03_run(cx, &format!("\u{9b}?{}{}", r, f), false, "digits");
                    }
                }
            }
        }
        // zero padding of every length a digit buffer might be capped at, and parameter lists far
        // longer than any real program sends (every parameter counts, none may be dropped, the
        // recogniser's stack must not grow with the list)
        if cx.begin_group("padding and long lists") {
            let finals: Vec<char> = "HmgJKhlrABCDPX@Ld".chars().collect();
            let mut k = 0u64;
            for pad in [1usize, 19, 20, 39, 40, 63, 64, 65, 66, 127, 128, 129, 255, 256, 257, 1000, 4096, 70000] {
                for f in &finals {
                    for d in ["0", "1", "2", "3", "7", "12"] {
                        k += 1;
                        if !cx.mine(k) {
                            continue;
                        }
                        let z = "0".repeat(pad);
                        c03_run(cx, &format!("\x1b[{}{}{}", z, d, f), true, "padding");
                        c03_run(cx, &format!("\x1b[2;{}{};{}{}{}", z, d, z, d, f), k % 2 == 0, "padding");
                        c03_run(cx, &format!("{}?{}{}{}", '\u{9b}', z, d, f), false, "padding");
                    }
                }
            }
            for n in [16usize, 17, 31, 32, 33, 64, 100, 101, 128, 255, 256, 257, 1000, 3000] {
                for f in &finals {
                    for (vi, val) in ["", "0", "1", "5", "38"].iter().enumerate() {
                        k += 1;
                        if !cx.mine(k) {
                            continue;
                        }
                        let list = vec![*val; n].join(";");
                        c03_run(cx, &format!("\x1b[{}{}", list, f), true, "long-list");
                        c03_run(cx, &format!("\x1b[{};1{}", list, f), vi % 2 == 0, "long-list");
                        c03_run(cx, &format!("\x1b[4;{}{}", list, f), true, "long-list");
                    }
                }
            }
            // a long list that ends WITHOUT dispatch ($+final, CAN, SUB), then text, then another
            // long list: nothing of the first may surface in the second
            for n1 in [15usize, 16, 17, 18, 33, 64, 65, 300] {
                for n2 in [1usize, 15, 16, 17, 18, 40, 300] {
                    for (ei, end) in ["$r", "$p", "\x18", "\x1a", "m"].iter().enumerate() {
                        k += 1;
                        if !cx.mine(k) {
                            continue;
                        }
                        let l1: Vec<String> = (0..n1).map(|i| (101 + i).to_string()).collect();
                        let l2: Vec<String> = (0..n2).map(|i| (1 + i % 9).to_string()).collect();
                        for f in ["m", "H", "h"] {
                            c03_run(cx, &format!("\x1b[{}{}ok\x1b7\x1b[{}{}", l1.join(";"), end, l2.join(";"), f), ei % 2 == 0, "long-pair");
                        }
                    }
                }
            }
            cx.stats.exhaustive_parts.insert("zero padding of 18 lengths (1..70000) x 17 finals x 6 digits; parameter lists of 14 lengths (16..3000) x 17 finals x 5 values; pairs 'list of 15..300 parameters ended by $x / CAN / SUB / m, text, list of 1..300 parameters'".into());
        }
        // two recognisers alive on one thread, fed alternately chunk by chunk (two panes of one
        // program): each must produce the events of its own input
        if cx.begin_group("interleaved parsers") {
            for round in 0..400u64 {
                if !cx.mine(round) {
                    continue;
                }
                let mut rng = crate::rng::Rng::new(round * 77 + 5);
                let pool = seq_pool();
                let mk_stream = |rng: &mut crate::rng::Rng| -> String {
                    let mut s = String::new();
                    for _ in 0..2 + rng.usize(4) {
                        if rng.below(3) == 0 {
                            s.push_str(&gen::unit(rng, 10, 5));
                        } else {
                            s.push_str(rng.pick(&pool[..]).as_str());
                        }
                    }
                    s.push('Z');
                    s
                };
                for pk in [PK::Chars, PK::Bytes] {
                    let (sa, sb) = (mk_stream(&mut rng), mk_stream(&mut rng));
                    let (ca, cb): (Vec<char>, Vec<char>) = (sa.chars().collect(), sb.chars().collect());
                    let mut a = RecSys::new(pk);
                    let mut b = RecSys::new(pk);
                    let (mut ia, mut ib) = (0usize, 0usize);
                    let mut ok = true;
                    while ok && (ia < ca.len() || ib < cb.len()) {
                        for (sys, chars, i) in [(&mut a, &ca, &mut ia), (&mut b, &cb, &mut ib)] {
                            if *i < chars.len() {
                                let n = 1 + rng.usize(3);
                                let j = (*i + n).min(chars.len());
                                let chunk: String = chars[*i..j].iter().collect();
                                *i = j;
                                if catch(|| sys.feed(&chunk)).is_err() {
                                    ok = false;
                                }
                            }
                        }
                    }
                    cx.stats.clause("interleaved-compared");
                    cx.stats.evaluations += 1;
                    for (sys, text) in [(&a, &sa), (&b, &sb)] {
                        let mut solo = RecSys::new(pk);
                        let solo_ok = catch(|| solo.feed(text)).is_ok();
                        if !ok || !solo_ok || solo.events() != sys.events() {
                            let mut case = Case::new("C03", "interleaved", 1, 1, pk);
                            case.ops = vec![Op::Feed(sa.clone()), Op::Feed(sb.clone())];
                            case.aux = json!({ "round": round });
                            cx.violation(Viol {
                                prop: "C03".into(),
                                clause: "interleaved".into(),
                                op: "feed".into(),
                                bucket: format!("{:?}", pk),
                                detail: format!("two parsers on one thread fed alternately: the one given {:?} produced\n {:?}\n instead of (fed alone)\n {:?}\n (the other one was given {:?})", text, sys.events(), solo.events(), if std::ptr::eq(text, &sa) { &sb } else { &sa }),
                                case,
                            });
                            break;
                        }
                    }
                }
            }
        }
        // all chains of length 4 over a focused pool (titles, title-stack / window operations,
        // SGR stack, ANSI save / restore, soft reset): what a pair cannot show
        if cx.begin_group("sequence chains") {
            let focus = ["\x1b]2;A\x07", "\x1b]2;B\x07", "\x1b]1;A\x07", "\x1b]0;C\x1b\\", "\x1b[22t", "\x1b[23t", "\x1b[22;2t", "\x1b[23;2t", "\x1b[22;1t", "\x1b[23;1t", "\x1b[#{", "\x1b[#}", "\x1b[s", "\x1b[u", "\x1b[!p", "\x1b[1m", "x"];
            let n = focus.len() as u64;
            let mut k = 0u64;
            for a in focus {
                for b in focus {
                    for c in focus {
                        k += 1;
                        if !cx.mine(k) {
                            continue;
                        }
                        for d in focus {
                            c03_run(cx, &format!("{}{}{}{}", a, b, c, d), true, "chain");
                        }
                    }
                }
            }
            cx.stats.exhaustive_parts.insert(format!("all {} chains of length 4 over a focused pool of {} sequences (titles, title stack, window operations, SGR stack, save / restore, soft reset)", n * n * n * n, n));
        }
        // all ordered pairs of a pool of complete, aborted and skipped sequences: interaction
        // through state that survives a return to ground
        if cx.begin_group("sequence pairs") {
            let pool = seq_pool();
            let mut k = 0u64;
            let mut done = true;
            'pairs: for a in &pool {
                for b in &pool {
                    k += 1;
                    if !cx.mine(k) {
                        continue;
                    }
                    let s = format!("{}{}", a, b);
                    c03_run(cx, &s, true, "pair");
                    if k % 3 == 0 {
                        c03_run(cx, &s, false, "pair");
                    }
                    if k % 4096 == 0 && (cx.used() > 0.85 || cx.out_of_time()) {
                        done = false;
                        break 'pairs;
                    }
                }
            }
            if done {
                cx.stats.exhaustive_parts.insert(format!("all {} ordered pairs of a pool of {} complete / aborted / skipped sequences", pool.len() * pool.len(), pool.len()));
            }
        }
        // random long strings and two-sequence concatenations
        while !cx.out_of_time() {
            if !cx.begin_group("random") {
                if cx.past_only_group() {
                    break;
                }
                continue;
            }
            for _ in 0..200 {
                let n = 1 + cx.rng.usize(40);
                let mut s = String::new();
                for _ in 0..n {
                    match cx.rng.below(10) {
                        0 => s.push_str(&gen::unit(&mut cx.rng, 10, 5)),
                        _ => s.push(*cx.rng.pick(ALPHABET)),
                    }
                }
                let utf8 = cx.rng.bool();
                c03_run(cx, &s, utf8, "random");
                // a chain of 3..8 pool sequences
                if cx.rng.below(4) == 0 {
                    let pool = seq_pool();
                    let mut ch = String::new();
                    for _ in 0..3 + cx.rng.usize(6) {
                        ch.push_str(cx.rng.pick(&pool[..]).as_str());
                    }
                    c03_run(cx, &ch, utf8, "pool-chain");
                }
                // a realistic session, mutated
                let sess = gen::session(&mut cx.rng, 20, 6, 12);
                let m = gen::mutate(&mut cx.rng, &sess);
                c03_run(cx, &m, utf8, "session");
            }
        }
    }
    fn replay(&self, case: &Case, cx: &mut Ctx) {
        if case.kind == "dispatch" {
            // table entries are re-checked by the (cheap, deterministic) enumeration itself
            let mut c2 = Ctx::new(Tier::Quick, 1, 0, 1, std::time::Duration::from_secs(5));
            c2.only_group = None;
            self.shard(&mut c2);
            for (_, (v, _)) in c2.stats.viols {
                if v.clause == "dispatch-table" {
                    cx.violation(v);
                }
            }
            return;
        }
        if case.kind == "interleaved" {
            // deterministic in the round number: re-run that workload
            let mut c2 = Ctx::new(Tier::Quick, 1, 0, 1, std::time::Duration::from_secs(20));
            self.shard(&mut c2);
            for (_, (v, _)) in c2.stats.viols {
                if v.clause == "interleaved" {
                    cx.violation(v);
                }
            }
            return;
        }
        let utf8 = case.aux["utf8"].as_bool().unwrap_or(true);
        for op in &case.ops {
            if let Op::Feed(s) = op {
                c03_run(cx, s, utf8, "replay");
            }
        }
    }
}

// =============================================================================================
// C19
// =============================================================================================

pub struct C19Check;
pub static C19: C19Check = C19Check;

fn c19_payload(rng: &mut Rng) -> String {
    let specials = [";", "\\", "]", "[", " ", "  ", "é", "コ", "e\u{0308}", "\x1bx", "\x1b[", "\x1b]", "a\x1b\x07b", "\x1b\u{9c}", "\x1b\x1b", "\n", "\r", "\t", "\x18", "\x1a", "\0", "\u{7f}", "\u{9b}", "\u{9d}", "C:\\dir", "a;b;c", "日本語"];
    match rng.below(10) {
        0 => String::new(),
        1 => ((b' ' + rng.below(95) as u8) as char).to_string(),
        2 => (*rng.pick(&specials)).to_string(),
        3 => {
            let n = *rng.pick(&[1usize, 2, 64, 255, 256, 1024, 4096]);
            (0..n).map(|_| (b' ' + rng.below(95) as u8) as char).collect()
        }
        4 => format!(" {} ", gen::text_run(rng, 8)),
        _ => {
            let mut s = String::new();
            for _ in 0..1 + rng.usize(6) {
                if rng.below(3) == 0 {
                    s.push_str(*rng.pick(&specials));
                } else if rng.below(5) == 0 {
                    // any character of the class-representative Unicode sample, bare or as the
                    // partner of an ESC
                    if rng.below(3) == 0 {
                        s.push('\u{1b}');
                    }
                    s.push(gen::uchar(rng));
                } else {
                    s.push((b' ' + rng.below(95) as u8) as char);
                }
            }
            s
        }
    }
}

/// payloads must not contain a terminator (BEL, U+009C, ESC \) - and a trailing lone ESC would
/// pair with the terminator
fn c19_clean(p: &str) -> String {
    let mut out = String::new();
    let mut prev_esc = false;
    for c in p.chars() {
        if (c == '\u{7}' || c == '\u{9c}') && !prev_esc {
            continue; // a bare terminator cannot be payload; paired with ESC it is (documented pyte pairing)
        }
        if prev_esc && c == '\\' {
            out.push('/');
            prev_esc = false;
            continue;
        }
        // an ESC consumes the next character as its partner
        prev_esc = if prev_esc { false } else { c == '\u{1b}' };
        out.push(c);
    }
    if prev_esc {
        out.push('x');
    }
    out
}

fn c19_run(cx: &mut Ctx, intro: &str, code: char, payload: &str, term: &str, cut: Option<usize>, pk: PK, semi: bool) {
    let seq = if semi { format!("{}{};{}{}", intro, code, payload, term) } else { format!("{}{}{}", intro, code, term) };
    let full = format!("{}Z", seq);
    let mk = || {
        let mut c = Case::new("C19", "osc", 12, 2, pk);
        c.ops = vec![Op::Feed(seq.clone())];
        c.aux = json!({"intro": intro, "code": code.to_string(), "payload": payload, "term": term, "cut": cut, "semi": semi});
        c
    };
    let mut sys = Sys::new(12, 2, pk);
    sys.set_recording(false, false);
    // pre-existing title/icon so that "unchanged" is visible
    let _ = sys.try_apply(&Op::Api(Call::SetTitle("T0".into())));
    let _ = sys.try_apply(&Op::Api(Call::SetIconName("I0".into())));
    let pre = sys.snap();
    let chars: Vec<char> = full.chars().collect();
    let chunks: Vec<String> = match cut {
        Some(k) => gen::cut_chars(&chars, &[k.min(chars.len())]),
        None => vec![full.clone()],
    };
    let mut res = Ok(());
    for ch in &chunks {
        res = sys.try_apply(&Op::Feed(ch.clone()));
        if res.is_err() {
            break;
        }
    }
    let key = format!(
        "{}|{}|{}|{}|{:?}|cut={}|{}",
        if intro.len() == 1 { "c1" } else { "esc" },
        match code {
            '0' | '1' | '2' => code,
            c if c.is_ascii_digit() => 'd',
            _ => 'l',
        },
        match term {
            "\x07" => "bel",
            "\u{9c}" => "st",
            _ => "escst",
        },
        payload_class(payload),
        pk,
        cut.is_some(),
        semi
    );
    cx.stats.eval(&key, true);
    cx.stats.clause("osc-judged");
    cx.stats.sample(&key, 10, || json!({"sequence": full, "parser": format!("{:?}", pk), "cut": cut}));
    let bucket = format!("code={}|term={}|{}|semi={}", if "012".contains(code) { code } else { 'x' }, term.escape_debug(), payload_class(payload), semi);
    if let Err(p) = res {
        cx.violation(Viol {
            prop: "C19".into(),
            clause: "panic".into(),
            op: "osc".into(),
            bucket: panic_sig(&p),
            detail: format!("{:?}: panic {} at {}", full, p.msg, p.loc),
            case: mk(),
        });
        return;
    }
    let post = sys.snap();
    let want_payload = if semi { payload.to_string() } else { String::new() };
    let (want_icon, want_title) = match code {
        '0' => (want_payload.clone(), want_payload.clone()),
        '1' => (want_payload.clone(), pre.title.clone()),
        '2' => (pre.icon.clone(), want_payload.clone()),
        _ => (pre.icon.clone(), pre.title.clone()),
    };
    let mut bad: Vec<(&'static str, String)> = Vec::new();
    if post.title != want_title {
        bad.push(("title", format!("title expected {:?} got {:?}", want_title, post.title)));
    }
    if post.icon != want_icon {
        bad.push(("icon", format!("icon name expected {:?} got {:?}", want_icon, post.icon)));
    }
    // the sentinel must be the only thing drawn, at the origin
    let mut exp_grid = pre.grid.clone();
    exp_grid[0][0].text = "Z".into();
    if post.grid != exp_grid {
        let sw = post.grid[0][0].text != "Z";
        bad.push((if sw { "swallowed" } else { "grid-touched" }, format!("grid after the sequence + sentinel: {:?} / {:?}", post.row_text(0), post.row_text(1))));
    }
    if (post.cx, post.cy) != (1, 0) {
        bad.push(("cursor", format!("cursor expected (1,0) got ({},{})", post.cx, post.cy)));
    }
    for (cl, d) in bad {
        cx.violation(Viol { prop: "C19".into(), clause: cl.into(), op: "osc".into(), bucket: bucket.clone(), detail: format!("{:?} via {:?} cut {:?}: {}", full, pk, cut, d), case: mk() });
    }
}

/// several OSC strings on ONE parser: what an earlier string (ignored code, other terminator,
/// empty payload) leaves behind must not leak into a later title
fn c19_multi(cx: &mut Ctx, parts: &[(String, char, String, String)], pk: PK) {
    // parts: (intro, code, payload, terminator)
    let mut seq = String::new();
    let (mut want_title, mut want_icon) = (String::from("T0"), String::from("I0"));
    for (pi, (intro, code, payload, term)) in parts.iter().enumerate() {
        if pi > 0 && payload.starts_with("again") {
            // between two identical strings the title is changed by a non-OSC route (RIS)
            seq.push_str("\x1bc");
            want_title = String::new();
            want_icon = String::new();
        }
        seq.push_str(&format!("{}{};{}{}", intro, code, payload, term));
        match code {
            '0' => {
                want_title = payload.clone();
                want_icon = payload.clone();
            }
            '1' => want_icon = payload.clone(),
            '2' => want_title = payload.clone(),
            _ => {}
        }
    }
    let full = format!("{}Z", seq);
    let mk = || {
        let mut c = Case::new("C19", "multi", 12, 2, pk);
        c.ops = vec![Op::Feed(seq.clone())];
        c.aux = json!({"parts": parts.iter().map(|p| json!([p.0, p.1.to_string(), p.2, p.3])).collect::<Vec<_>>()});
        c
    };
    let mut sys = Sys::new(12, 2, pk);
    sys.set_recording(false, false);
    let _ = sys.try_apply(&Op::Api(Call::SetTitle("T0".into())));
    let _ = sys.try_apply(&Op::Api(Call::SetIconName("I0".into())));
    let res = sys.try_apply(&Op::Feed(full.clone()));
    let codes: String = parts.iter().map(|p| if "012".contains(p.1) { p.1 } else { 'x' }).collect();
    cx.stats.eval(&format!("multi|{}|{:?}", codes, pk), true);
    cx.stats.clause("osc-multi");
    if let Err(p) = res {
        cx.violation(Viol { prop: "C19".into(), clause: "panic".into(), op: "osc".into(), bucket: panic_sig(&p), detail: format!("{:?}: panic {} at {}", full, p.msg, p.loc), case: mk() });
        return;
    }
    let post = sys.snap();
    let mut bad: Vec<(&'static str, String)> = Vec::new();
    if post.title != want_title {
        bad.push(("title", format!("title expected {:?} got {:?}", want_title, post.title)));
    }
    if post.icon != want_icon {
        bad.push(("icon", format!("icon name expected {:?} got {:?}", want_icon, post.icon)));
    }
    if post.grid[0][0].text != "Z" || (post.cx, post.cy) != (1, 0) {
        bad.push(("swallowed", format!("row 0 = {:?}, cursor ({},{})", post.row_text(0), post.cx, post.cy)));
    }
    for (cl, d) in bad {
        cx.violation(Viol { prop: "C19".into(), clause: cl.into(), op: "osc-multi".into(), bucket: format!("codes={}", codes), detail: format!("{:?} via {:?}: {}", full, pk, d), case: mk() });
    }
}

fn payload_class(p: &str) -> &'static str {
    if p.is_empty() {
        "empty"
    } else if p.contains('\u{1b}') {
        "esc-pair"
    } else if p.chars().any(|c| (c as u32) < 0x20) {
        "c0"
    } else if p.contains('\\') {
        "backslash"
    } else if p.contains(';') {
        "semicolon"
    } else if !p.is_ascii() {
        "non-ascii"
    } else if p.len() > 200 {
        "long"
    } else if p.starts_with(' ') || p.ends_with(' ') {
        "spaces"
    } else {
        "plain"
    }
}

impl Check for C19Check {
    fn id(&self) -> &'static str {
        "C19"
    }
    fn rule(&self) -> String {
        "generated OSC strings `intro code ; payload terminator` + sentinel on a real Screen: title / icon name must equal the payload exactly (codes 0,1,2), stay unchanged for other codes, the grid must show only the sentinel at the origin and the cursor must be at column 1. intro in {ESC ], U+009D}, code in digits and letters (R, P excluded), terminator in {BEL, U+009C, ESC \\}, payloads: empty, every printable ASCII singleton, `;` `\\` `]` `[`, spaces, non-ASCII, wide, combining, ESC x pairs, C0 other than BEL, 1-4096 characters; every 2-way cut for short sequences, random cuts for long ones; Parser and ByteParser. distinct = (intro, code class, terminator, payload class, parser, cut?, has `;`)".into()
    }
    fn assumptions(&self) -> Vec<String> {
        assumptions()
    }
    fn required(&self, _t: Tier) -> Vec<&'static str> {
        vec!["osc-judged"]
    }
    fn shard(&self, cx: &mut Ctx) {
        let intros = ["\x1b]", "\u{9d}"];
        let terms = ["\x07", "\u{9c}", "\x1b\\"];
        let codes: Vec<char> = "0123456789abclLxXpZ".chars().collect();
        // enumerated core: every intro x code x terminator x a fixed payload set, every 2-way cut
        let fixed: Vec<String> = {
            let mut v: Vec<String> = vec!["".into(), "t".into(), ";".into(), "a;b".into(), "C:\\dir".into(), "]x[".into(), " s ".into(), "é".into(), "コ".into(), "e\u{0308}".into(), "\x1bx".into(), "\n\r\t".into(), "\x18".into(), "ab\x1b\x07cd".into(), "\x1b\u{9c}z".into()];
            for b in b' '..=b'~' {
                v.push((b as char).to_string());
            }
            // characters whose code point, truncated to a byte, equals a byte of the grammar
            // (\ BEL ST ESC [ ] CAN ;): neither bare nor as the partner of an ESC may they end or
            // alter the string
            for x in ALIASES {
                v.push(format!("a{}b", x));
                v.push(format!("ab\x1b{}cd", x));
            }
            v
        };
        let mut idx = 0u64;
        let mut complete = true;
        'outer: for intro in intros {
            for code in &codes {
                for term in terms {
                    for p in &fixed {
                        idx += 1;
                        if !cx.mine(idx) {
                            continue;
                        }
                        if idx % 64 == 0 && (cx.used() > 0.7 || cx.out_of_time()) {
                            complete = false;
                            break 'outer;
                        }
                        if !cx.begin_group(&format!("osc {:?} {} {:?}", intro, code, term)) {
                            continue;
                        }
                        let p = c19_clean(p);
                        let pk = if idx % 3 == 0 { PK::Bytes } else { PK::Chars };
                        c19_run(cx, intro, *code, &p, term, None, pk, true);
                        let n = intro.chars().count() + 2 + p.chars().count() + term.chars().count() + 1;
                        if "012".contains(*code) || idx % 5 == 0 {
                            for k in 0..=n {
                                c19_run(cx, intro, *code, &p, term, Some(k), pk, true);
                            }
                        }
                        if p.is_empty() {
                            // no `;` at all: OSC 0 BEL
                            c19_run(cx, intro, *code, "", term, None, pk, false);
                        }
                    }
                }
            }
        }
        if complete {
            cx.stats.exhaustive_parts.insert("2 introducers x 19 codes x 3 terminators x 130 fixed payloads (every printable ASCII singleton, 15 special ones, 10 byte-aliases of grammar characters bare and after ESC), every 2-way cut for codes 0/1/2".into());
        }
        // all ordered pairs (and some triples) of OSC strings on one parser
        if cx.begin_group("osc pairs") {
            let mut k = 0u64;
            let pcodes = ['0', '1', '2', '4', '7', 'x', 'l'];
            let payloads = ["", "a", "1;rgb:ff/00/00", "p q"];
            for c1 in pcodes {
                for c2 in pcodes {
                    for p1 in payloads {
                        for p2 in payloads {
                            k += 1;
                            if !cx.mine(k) {
                                continue;
                            }
                            let t1 = terms[(k % 3) as usize];
                            let t2 = terms[((k / 3) % 3) as usize];
                            let i1 = intros[(k % 2) as usize];
                            let pk = if k % 4 == 0 { PK::Bytes } else { PK::Chars };
                            let parts = vec![(i1.to_string(), c1, p1.to_string(), t1.to_string()), ("\x1b]".to_string(), c2, p2.to_string(), t2.to_string())];
                            c19_multi(cx, &parts, pk);
                            if k % 5 == 0 {
                                let mut three = parts.clone();
                                three.push(("\x1b]".to_string(), '2', "third".to_string(), "\x07".to_string()));
                                c19_multi(cx, &three, pk);
                            }
                        }
                    }
                }
            }
            // the same OSC twice with a RIS in between (payloads starting with "again" trigger it)
            for c1 in ['0', '1', '2'] {
                for t in terms {
                    let p = ("\x1b]".to_string(), c1, "again and again".to_string(), t.to_string());
                    c19_multi(cx, &[p.clone(), p.clone()], PK::Chars);
                    c19_multi(cx, &[p.clone(), p.clone(), p.clone()], PK::Bytes);
                }
            }
            cx.stats.exhaustive_parts.insert("all ordered pairs of OSC strings over 7 codes x 4 payloads on one parser (terminators / introducers rotated), every fifth extended to a triple; identical strings repeated across a RIS".into());
        }
        // payload lengths around the sizes a buffer cap or a narrow counter would have
        for (i, n) in [65535usize, 65536, 65537, (1 << 20) + 37].iter().enumerate() {
            if cx.mine(i as u64 + 3) && cx.begin_group(&format!("osc long {}", n)) {
                let p: String = (0..*n).map(|k| (b'a' + (k % 26) as u8) as char).collect();
                c19_run(cx, "\x1b]", if i % 2 == 0 { '2' } else { '0' }, &p, if i % 2 == 0 { "\x07" } else { "\x1b\\" }, None, if i % 2 == 0 { PK::Chars } else { PK::Bytes }, true);
                cx.stats.exhaustive_parts.insert("payload lengths 65535, 65536, 65537 and 2^20+37".into());
            }
        }
        // every Unicode scalar value inside a payload, bare and as the partner of an ESC: one
        // long-lived parser per worker, the title read back after each string; a mismatch is
        // handed to the full monitor for a proper verdict and witness
        if cx.begin_group("osc unicode sweep") {
            let mut sys = Sys::new(12, 2, PK::Chars);
            sys.set_recording(false, false);
            let mut complete = true;
            for cp in 0..=0x10ffffu32 {
                if !cx.mine(cp as u64) {
                    continue;
                }
                let ch = match char::from_u32(cp) {
                    Some(c) if !matches!(c, '\u{7}' | '\u{9c}' | '\u{1b}' | '\\') => c,
                    _ => continue,
                };
                if cp % 4096 == 0 && (cx.used() > 0.6 || cx.out_of_time()) {
                    complete = false;
                    break;
                }
                let payload = format!("a{}b\x1b{}c", ch, ch);
                let ok = sys.try_apply(&Op::Feed(format!("\x1b]2;{}\x07", payload))).is_ok() && {
                    let t = sys.t();
                    t.scr.title == payload && t.scr.cursor.x == 0 && t.scr.cursor.y == 0
                };
                cx.stats.evaluations += 1;
                if !ok {
                    c19_run(cx, "\x1b]", '2', &payload, "\x07", None, PK::Chars, true);
                    sys = Sys::new(12, 2, PK::Chars);
                    sys.set_recording(false, false);
                }
            }
            if complete {
                cx.stats.count("unicode_sweeps_completed", 1);
                cx.stats.exhaustive_parts.insert("every Unicode scalar value (except BEL, ST, ESC, backslash) inside an OSC 2 payload, bare and as the partner of an ESC".into());
            }
        }
        // 8-bit mode: the payload is exactly the characters fed, also when these Latin-1
        // characters happen to spell well-formed UTF-8
        if cx.begin_group("osc in 8-bit mode") {
            let payloads = ["\u{c3}\u{a9}", "caf\u{c3}\u{a9}", "\u{e2}\u{82}\u{ac}", "\u{f0}\u{9f}\u{98}\u{80}", "\u{e9}", "\u{c3}", "a\u{ff}b", "\u{ef}\u{bb}\u{bf}t"];
            let mut k = 0u64;
            for p in payloads {
                for code in ['0', '1', '2'] {
                    for term in ["\x07", "\x1b\\"] {
                        for pk in [PK::Chars, PK::Bytes] {
                            k += 1;
                            if !cx.mine(k) {
                                continue;
                            }
                            let mut sys = Sys::new(12, 2, pk);
                            sys.set_recording(false, false);
                            let _ = sys.try_apply(&Op::Charset("@".into()));
                            let seq = format!("\x1b]{};{}{}", code, p, term);
                            // through ByteParser each character is one byte of equal value
                            let op = if pk == PK::Bytes { Op::FeedBytes(seq.chars().map(|c| c as u32 as u8).collect()) } else { Op::Feed(seq.clone()) };
                            let ok = sys.try_apply(&op).is_ok();
                            let post = sys.snap();
                            cx.stats.clause("osc-judged");
                            cx.stats.evaluations += 1;
                            let want_t = if code != '1' { p } else { "" };
                            let want_i = if code != '2' { p } else { "" };
                            if !ok || post.title != want_t || post.icon != want_i {
                                let mut case = Case::new("C19", "osc8", 12, 2, pk);
                                case.ops = vec![Op::Charset("@".into()), op];
                                case.aux = json!({"after": "8-bit", "code": code.to_string(), "payload": p});
                                cx.violation(Viol {
                                    prop: "C19".into(),
                                    clause: "after-sequence".into(),
                                    op: "osc".into(),
                                    bucket: format!("8bit|code={}", code),
                                    detail: format!("8-bit mode, {:?} via {:?}: title {:?} / icon {:?}, expected {:?} / {:?}", seq, pk, post.title, post.icon, want_t, want_i),
                                    case,
                                });
                            }
                        }
                    }
                }
            }
        }
        // all chains of four OSC strings over codes {0,1,2} x payloads {A, B, empty} on one parser:
        // a payload returning under another code, a code returning with another payload
        if cx.begin_group("osc chains") {
            let items: Vec<(char, &str)> = ['0', '1', '2'].iter().flat_map(|c| ["A", "B", ""].iter().map(move |p| (*c, *p))).collect();
            let mut k = 0u64;
            for a in &items {
                for b in &items {
                    k += 1;
                    if !cx.mine(k) {
                        continue;
                    }
                    for c in &items {
                        for d in &items {
                            let parts: Vec<(String, char, String, String)> = [a, b, c, d].iter().enumerate().map(|(i, (code, p))| ((if i % 2 == 0 { "\x1b]" } else { "\u{9d}" }).to_string(), *code, p.to_string(), ["\x07", "\u{9c}", "\x1b\\"][i % 3].to_string())).collect();
                            c19_multi(cx, &parts, if k % 2 == 0 { PK::Chars } else { PK::Bytes });
                        }
                    }
                }
            }
            cx.stats.exhaustive_parts.insert("all 6561 chains of four OSC strings over codes {0,1,2} x payloads {A, B, empty} on one parser".into());
        }
        // whatever sequence came before on the same parser - complete, aborted, skipped, one that
        // other terminals implement - the title / icon name is exactly the payload
        if cx.begin_group("osc after another sequence") {
            let pool = seq_pool();
            for (i, pre_seq) in pool.iter().enumerate() {
                if !cx.mine(i as u64) {
                    continue;
                }
                for (code, payload, term, pk) in [('2', "vim", "\x07", PK::Chars), ('0', "", "\x1b\\", PK::Bytes), ('1', "7", "\u{9c}", PK::Chars)] {
                    let mut sys = Sys::new(12, 2, pk);
                    sys.set_recording(false, false);
                    let _ = sys.try_apply(&Op::Api(Call::SetTitle("T0".into())));
                    let _ = sys.try_apply(&Op::Api(Call::SetIconName("I0".into())));
                    let seq = format!("{}\x1b]{};{}{}", pre_seq, code, payload, term);
                    let ok = sys.try_apply(&Op::Feed(pre_seq.clone())).is_ok();
                    let mid = sys.snap();
                    let ok = ok && sys.try_apply(&Op::Feed(format!("\x1b]{};{}{}", code, payload, term))).is_ok();
                    let post = sys.snap();
                    cx.stats.clause("osc-judged");
                    cx.stats.evaluations += 1;
                    let (want_icon, want_title) = match code {
                        '0' => (payload.to_string(), payload.to_string()),
                        '1' => (payload.to_string(), mid.title.clone()),
                        _ => (mid.icon.clone(), payload.to_string()),
                    };
                    if !ok || post.title != want_title || post.icon != want_icon || (post.cx, post.cy) != (mid.cx, mid.cy) || post.grid != mid.grid {
                        let mut case = Case::new("C19", "osc", 12, 2, pk);
                        case.ops = vec![Op::Feed(seq.clone())];
                        case.aux = json!({"after": pre_seq, "code": code.to_string(), "payload": payload, "term": term});
                        cx.violation(Viol {
                            prop: "C19".into(),
                            clause: "after-sequence".into(),
                            op: "osc".into(),
                            bucket: format!("code={}", code),
                            detail: format!("{:?} via {:?}: after {:?} the string OSC {} ; {:?} gave title {:?} / icon {:?} (expected {:?} / {:?}), cursor ({},{}) -> ({},{})", seq, pk, pre_seq, code, payload, post.title, post.icon, want_title, want_icon, mid.cx, mid.cy, post.cx, post.cy),
                            case,
                        });
                    }
                }
            }
            cx.stats.exhaustive_parts.insert(format!("OSC 0/1/2 right after each of {} pool sequences (complete / aborted / skipped / implemented elsewhere) on the same parser", pool.len()));
        }
        while !cx.out_of_time() {
            if !cx.begin_group("osc random") {
                if cx.past_only_group() {
                    break;
                }
                continue;
            }
            for _ in 0..100 {
                let intro = *cx.rng.pick(&intros);
                let term = *cx.rng.pick(&terms);
                let code = *cx.rng.pick(&codes);
                let p = c19_clean(&c19_payload(&mut cx.rng));
                let pk = if cx.rng.below(3) == 0 { PK::Bytes } else { PK::Chars };
                let n = p.chars().count() + 6;
                let cut = if cx.rng.bool() { Some(cx.rng.usize(n + 1)) } else { None };
                c19_run(cx, intro, code, &p, term, cut, pk, true);
            }
        }
    }
    fn replay(&self, case: &Case, cx: &mut Ctx) {
        let a = &case.aux;
        if a.get("after").is_some() {
            let mut c2 = Ctx::new(Tier::Quick, 1, 0, 1, std::time::Duration::from_secs(20));
            self.shard(&mut c2);
            for (_, (v, _)) in c2.stats.viols {
                if v.clause == "after-sequence" {
                    cx.violation(v);
                }
            }
            return;
        }
        if case.kind == "multi" {
            let parts: Vec<(String, char, String, String)> = a["parts"]
                .as_array()
                .map(|v| {
                    v.iter()
                        .map(|e| (e[0].as_str().unwrap_or("").to_string(), e[1].as_str().unwrap_or("0").chars().next().unwrap_or('0'), e[2].as_str().unwrap_or("").to_string(), e[3].as_str().unwrap_or("").to_string()))
                        .collect()
                })
                .unwrap_or_default();
            c19_multi(cx, &parts, case.pk);
            return;
        }
        c19_run(
            cx,
            a["intro"].as_str().unwrap_or("\x1b]"),
            a["code"].as_str().unwrap_or("0").chars().next().unwrap_or('0'),
            a["payload"].as_str().unwrap_or(""),
            a["term"].as_str().unwrap_or("\x07"),
            a["cut"].as_u64().map(|x| x as usize),
            case.pk,
            a["semi"].as_bool().unwrap_or(true),
        );
    }
}

// =============================================================================================
// C11
// =============================================================================================

pub struct C11Check;
pub static C11: C11Check = C11Check;

/// segments: bytes to feed, or a charset switch
#[derive(Clone, Debug)]
enum Seg {
    Bytes(Vec<u8>),
    Switch(&'static str),
}

fn c11_run(cx: &mut Ctx, segs: &[Seg], kind: &str) {
    // observed: ByteParser fed the chunks
    let mut obs = RecSys::new(PK::Bytes);
    let mut reff = RecSys::new(PK::Chars);
    let mk = || {
        let mut c = Case::new("C11", "bytes", 1, 1, PK::Bytes);
        c.ops = segs
            .iter()
            .map(|s| match s {
                Seg::Bytes(b) => Op::FeedBytes(b.clone()),
                Seg::Switch(c) => Op::Charset(c.to_string()),
            })
            .collect();
        c
    };
    let res = catch(|| {
        for s in segs {
            match s {
                Seg::Bytes(b) => obs.feed_bytes(b),
                Seg::Switch(c) => obs.charset(c),
            }
        }
    });
    // reference: the same recogniser fed the decoding of each maximal same-mode run
    let mut utf8 = true;
    let mut run: Vec<u8> = Vec::new();
    let mut n_switch = 0;
    let mut pending_at_switch = false;
    let flush = |reff: &mut RecSys, run: &mut Vec<u8>, utf8: bool, last: bool, pending: &mut bool| {
        if utf8 {
            let s = String::from_utf8_lossy(run).into_owned();
            // an incomplete trailing sequence at a switch / at the end is pending, not decoded yet
            let (s, incomplete) = strip_incomplete_tail(run, &s);
            if incomplete && !last {
                *pending = true;
            }
            reff.feed(&s);
        } else {
            let s: String = run.iter().map(|b| *b as char).collect();
            reff.feed(&s);
        }
        run.clear();
    };
    for s in segs {
        match s {
            Seg::Bytes(b) => run.extend_from_slice(b),
            Seg::Switch(c) => {
                n_switch += 1;
                let new_mode = match *c {
                    "@" => false,
                    "G" | "8" => true,
                    _ => utf8,
                };
                // only a real mode change interrupts the byte stream
                if new_mode != utf8 {
                    flush(&mut reff, &mut run, utf8, false, &mut pending_at_switch);
                    utf8 = new_mode;
                    reff.charset(c);
                }
            }
        }
    }
    let mut dummy = false;
    flush(&mut reff, &mut run, utf8, true, &mut dummy);
    let total: usize = segs.iter().map(|s| if let Seg::Bytes(b) = s { b.len() } else { 0 }).sum();
    let nchunks = segs.len();
    let all: Vec<u8> = segs.iter().flat_map(|s| if let Seg::Bytes(b) = s { b.clone() } else { vec![] }).collect();
    let class = byte_class(&all);
    let key = format!("{}|chunks{}|sw{}|{}", class, nchunks.min(4), n_switch.min(2), kind);
    cx.stats.eval(&key, total > 0);
    cx.stats.clause("decode-compared");
    cx.stats.sample(&key, 10, || json!({"segments": format!("{:?}", segs)}));
    match res {
        Err(p) => {
            cx.violation(Viol {
                prop: "C11".into(),
                clause: "panic".into(),
                op: "feed".into(),
                bucket: panic_sig(&p),
                detail: format!("{:?}: panic {} at {}", segs, p.msg, p.loc),
                case: mk(),
            });
        }
        Ok(()) => {
            // a leading BOM of the whole stream is optional on either side (one of them, once)
            let a0 = crate::refparser::norm_log_keep_cc(&obs.events());
            let b0 = crate::refparser::norm_log_keep_cc(&reff.events());
            let a1 = strip_bom(&a0);
            let b1 = strip_bom(&b0);
            let (a, b) = (a0.clone(), b0.clone());
            let ok = if a0 == b0 || a1 == b0 || a0 == b1 {
                true
            } else if pending_at_switch {
                // statement silent about a partial sequence pending at a switch: dropped or one U+FFFD
                let (x0, x1, y0, y1) = (drop_fffd(&a0), drop_fffd(&a1), drop_fffd(&b0), drop_fffd(&b1));
                x0 == y0 || x1 == y0 || x0 == y1
            } else {
                false
            };
            if !ok {
                cx.violation(Viol {
                    prop: "C11".into(),
                    clause: "decode-diff".into(),
                    op: "feed".into(),
                    bucket: format!("{}|chunks{}|sw{}", class, nchunks.min(3), n_switch.min(1)),
                    detail: format!("{:?}\n observed {:?}\n expected {:?}", segs, a, b),
                    case: mk(),
                });
            }
        }
    }
}

/// If `bytes` ends with an incomplete-but-so-far-valid UTF-8 sequence, return the decoding of
/// everything before it (the tail is held by a streaming decoder, not replaced).
fn strip_incomplete_tail(bytes: &[u8], lossy: &str) -> (String, bool) {
    let n = bytes.len();
    for back in 1..=3usize {
        if back > n {
            break;
        }
        let i = n - back;
        let b = bytes[i];
        let need = if b >= 0xf0 && b <= 0xf4 {
            4
        } else if b >= 0xe0 && b <= 0xef {
            3
        } else if b >= 0xc2 && b <= 0xdf {
            2
        } else {
            0
        };
        if need == 0 {
            if b & 0xc0 == 0x80 {
                continue; // continuation byte: keep looking for the lead
            }
            break;
        }
        if need > back {
            // is bytes[i..] a valid prefix?
            let tail = &bytes[i..];
            let ok = match (tail[0], tail.get(1)) {
                (_, None) => true,
                (0xe0, Some(c)) => (0xa0..=0xbf).contains(c),
                (0xed, Some(c)) => (0x80..=0x9f).contains(c),
                (0xf0, Some(c)) => (0x90..=0xbf).contains(c),
                (0xf4, Some(c)) => (0x80..=0x8f).contains(c),
                (_, Some(c)) => (0x80..=0xbf).contains(c),
            } && tail.iter().skip(2).all(|c| (0x80..=0xbf).contains(c));
            if ok {
                let head = String::from_utf8_lossy(&bytes[..i]).into_owned();
                return (head, true);
            }
        }
        break;
    }
    (lossy.to_string(), false)
}

fn strip_bom(v: &[Call]) -> Vec<Call> {
    let mut out = v.to_vec();
    if let Some(Call::Draw(s)) = out.first_mut() {
        if s.starts_with('\u{feff}') {
            *s = s['\u{feff}'.len_utf8()..].to_string();
            if s.is_empty() {
                out.remove(0);
                // a following draw stays separate; logs merge adjacent draws anyway
            }
        }
    }
    crate::refparser::norm_log_keep_cc(&out)
}

fn drop_fffd(v: &[Call]) -> Vec<Call> {
    let w: Vec<Call> = v
        .iter()
        .map(|c| match c {
            Call::Draw(s) => Call::Draw(s.replace('\u{fffd}', "")),
            o => o.clone(),
        })
        .filter(|c| !matches!(c, Call::Draw(s) if s.is_empty()))
        .collect();
    crate::refparser::norm_log_keep_cc(&w)
}

fn byte_class(b: &[u8]) -> &'static str {
    if b.is_empty() {
        return "empty";
    }
    match std::str::from_utf8(b) {
        Ok(s) => {
            if s.is_ascii() {
                if b.contains(&0x1b) {
                    "ascii+esc"
                } else {
                    "ascii"
                }
            } else if s.contains('\u{feff}') {
                "bom"
            } else if s.chars().any(|c| c as u32 > 0xffff) {
                "valid4"
            } else if s.chars().any(|c| c as u32 > 0x7ff) {
                "valid3"
            } else {
                "valid2"
            }
        }
        Err(e) => {
            if e.error_len().is_none() {
                "truncated"
            } else if b.iter().any(|x| *x == 0xc0 || *x == 0xc1 || *x >= 0xf5) {
                "never-valid-byte"
            } else if b.windows(2).any(|w| w[0] == 0xed && w[1] >= 0xa0) {
                "surrogate"
            } else {
                "ill-formed"
            }
        }
    }
}

pub const BYTE_ALPHABET: [u8; 24] = [
    0x00, 0x1b, 0x41, 0x5b, 0x7f, 0x80, 0x9b, 0xa0, 0xbf, 0xc0, 0xc2, 0xdf, 0xe0, 0xe2, 0xed, 0xef, 0xf0, 0xf4, 0xf5, 0xff, 0x9f, 0x90,
    0x8f, 0x48,
];

fn boundary_forms() -> Vec<Vec<u8>> {
    let mut v: Vec<Vec<u8>> = Vec::new();
    for cp in [0x0u32, 0x7f, 0x80, 0x7ff, 0x800, 0xfffd, 0xffff, 0x10000, 0x10ffff, 0xe9, 0x30b3, 0x1f600, 0xfeff, 0xd7ff, 0xe000] {
        if let Some(c) = char::from_u32(cp) {
            v.push(c.to_string().into_bytes());
        }
    }
    // overlongs, surrogates, > U+10FFFF, stray continuations, 5/6 byte forms
    for bad in [
        &[0xc0u8, 0x80][..],
        &[0xc1, 0xbf],
        &[0xe0, 0x80, 0x80],
        &[0xe0, 0x9f, 0xbf],
        &[0xf0, 0x80, 0x80, 0x80],
        &[0xf0, 0x8f, 0xbf, 0xbf],
        &[0xed, 0xa0, 0x80],
        &[0xed, 0xbf, 0xbf],
        &[0xf4, 0x90, 0x80, 0x80],
        &[0xf5, 0x80, 0x80, 0x80],
        &[0xf8, 0x88, 0x80, 0x80, 0x80],
        &[0xfc, 0x84, 0x80, 0x80, 0x80, 0x80],
        &[0x80],
        &[0xbf],
        &[0x80, 0x80],
        &[0xff],
        &[0xfe],
        &[0xef, 0xbb, 0xbf],
    ] {
        v.push(bad.to_vec());
    }
    // every truncation of every form
    let base = v.clone();
    for f in base {
        for k in 1..f.len() {
            v.push(f[..k].to_vec());
        }
    }
    v
}

fn all_cuts_run(cx: &mut Ctx, bytes: &[u8], kind: &str) {
    c11_run(cx, &[Seg::Bytes(bytes.to_vec())], kind);
    for k in 0..=bytes.len() {
        let parts = gen::cut_bytes(bytes, &[k]);
        c11_run(cx, &parts.into_iter().map(Seg::Bytes).collect::<Vec<_>>(), kind);
    }
    if bytes.len() > 1 {
        let parts: Vec<Seg> = bytes.iter().map(|b| Seg::Bytes(vec![*b])).collect();
        c11_run(cx, &parts, kind);
    }
    // every 3-way split of short strings (a middle chunk that neither starts nor ends a sequence)
    if bytes.len() >= 2 && bytes.len() <= 9 {
        for i in 0..=bytes.len() {
            for j in i..=bytes.len() {
                let parts = gen::cut_bytes(bytes, &[i, j]);
                c11_run(cx, &parts.into_iter().map(Seg::Bytes).collect::<Vec<_>>(), kind);
            }
        }
    }
}

impl Check for C11Check {
    fn id(&self) -> &'static str {
        "C11"
    }
    fn rule(&self) -> String {
        "differential event-log monitor: calls reaching a recording listener from ByteParser fed chunks b1..bk vs the same recogniser (Parser) fed String::from_utf8_lossy(b1||..||bk) (std implements the maximal-subpart rule; an incomplete trailing sequence is held back), 8-bit mode: bytes mapped 1:1; a leading BOM is optional on either side. Enumerated: every boundary form / overlong / surrogate / >U+10FFFF / stray continuation and every truncation of it, alone, embedded in ASCII and inside escape sequences, all byte strings of length <= 3 over a 24-byte class alphabet, x every 2-way cut and byte-at-a-time; plus random byte strings, mutated sessions, mode switches between chunks. distinct = (byte class, chunk count class, switches, workload)".into()
    }
    fn assumptions(&self) -> Vec<String> {
        let mut a = assumptions();
        a.push("String::from_utf8_lossy is the trusted streaming-decoder reference".into());
        a
    }
    fn required(&self, _t: Tier) -> Vec<&'static str> {
        vec!["decode-compared"]
    }
    fn shard(&self, cx: &mut Ctx) {
        let forms = boundary_forms();
        let mut idx = 0u64;
        let mut complete = true;
        if cx.begin_group("forms") {
            for f in &forms {
                for ctx_kind in 0..4 {
                    idx += 1;
                    if !cx.mine(idx) {
                        continue;
                    }
                    let bytes: Vec<u8> = match ctx_kind {
                        0 => f.clone(),
                        1 => [b"ab".to_vec(), f.clone(), b"cd".to_vec()].concat(),
                        2 => [b"\x1b[1;".to_vec(), f.clone(), b"2H".to_vec(), f.clone()].concat(),
                        _ => [b"\x1b]0;t".to_vec(), f.clone(), b"\x07x".to_vec()].concat(),
                    };
                    all_cuts_run(cx, &bytes, "forms");
                }
            }
        }
        // chains of chunks built from pieces of multi-byte characters and ASCII runs of every
        // length a block-wise shortcut might key on: held bytes carried across a chunk that
        // completes one character and starts the next, then ASCII, then continuation bytes
        if cx.begin_group("held bytes and ascii runs") {
            let chars: [&[u8]; 4] = [b"\xC3\xA9", b"\xE2\x82\xAC", b"\xF0\x9F\x98\x80", b"\xEF\xBB\xBF"];
            let mut k = 0u64;
            for a in chars {
                for b in chars {
                    for ha in 1..a.len() {
                        for hb in 1..b.len() {
                            for run in [0usize, 1, 15, 16, 31, 32, 33, 63, 64, 65, 255, 256, 300] {
                                k += 1;
                                if !cx.mine(k) {
                                    continue;
                                }
                                let ascii: Vec<u8> = (0..run).map(|i| b'a' + (i % 26) as u8).collect();
                                // head of a | rest of a + head of b | ascii | rest of b | tail
                                let segs = vec![
                                    Seg::Bytes(a[..ha].to_vec()),
                                    Seg::Bytes([&a[ha..], &b[..hb]].concat()),
                                    Seg::Bytes(ascii.clone()),
                                    Seg::Bytes(b[hb..].to_vec()),
                                    Seg::Bytes(b"z".to_vec()),
                                ];
                                let segs: Vec<Seg> = segs.into_iter().filter(|s| !matches!(s, Seg::Bytes(v) if v.is_empty())).collect();
                                c11_run(cx, &segs, "held+ascii");
                                // the same with the ASCII run first (decoder never saw a byte)
                                let segs2 = vec![Seg::Bytes(ascii), Seg::Bytes(a[..ha].to_vec()), Seg::Bytes([&a[ha..], &b[..hb]].concat()), Seg::Bytes(b[hb..].to_vec())];
                                let segs2: Vec<Seg> = segs2.into_iter().filter(|s| !matches!(s, Seg::Bytes(v) if v.is_empty())).collect();
                                c11_run(cx, &segs2, "held+ascii");
                            }
                        }
                    }
                }
            }
            cx.stats.exhaustive_parts.insert("chunk chains 'head of a | rest of a + head of b | ASCII run | rest of b' over 4 characters x every split x 13 run lengths (0..300)".into());
        }
        // very large single feeds whose decoding is longer than the input (round 13): every
        // ill-formed byte becomes three bytes of U+FFFD, so an output buffer sized from the
        // input length - or capped - must not make the decoder stop early and drop the rest
        if cx.begin_group("huge single feeds") {
            let mut k = 0u64;
            let mut cases: Vec<(Vec<u8>, &str)> = Vec::new();
            for n in [70_000usize, 360_000, 1_100_000] {
                cases.push((vec![0xFFu8; n], "huge all-illformed"));
                cases.push(([b"\xE2\x82".repeat(n / 2), b"x".to_vec()].concat(), "huge truncated"));
                // mostly ASCII with a few ill-formed bytes, the last ones right at the end
                let mut v: Vec<u8> = (0..n).map(|i| b'a' + (i % 26) as u8).collect();
                for j in 0..48 {
                    let at = (j * 7919 + 13) % n;
                    v[at] = 0x80 + (j as u8 % 0x40);
                }
                let l = v.len();
                v[l - 1] = 0x9F;
                v[l - 2] = 0xF0;
                v.extend_from_slice(b"\x1b]2;end\x07");
                cases.push((v, "huge mostly-ascii"));
                // well-formed three-byte characters only (output as long as the input)
                cases.push((["\u{20ac}".repeat(n / 3).into_bytes(), b"\x1b]2;end\x07".to_vec()].concat(), "huge well-formed"));
            }
            for (bytes, kind) in cases {
                k += 1;
                if !cx.mine(k) {
                    continue;
                }
                c11_run(cx, &[Seg::Bytes(bytes.clone())], kind);
                // the same in two feeds cut in the middle of the expansion
                let cut = bytes.len() / 2 + 1;
                c11_run(cx, &[Seg::Bytes(bytes[..cut].to_vec()), Seg::Bytes(bytes[cut..].to_vec())], kind);
            }
            cx.stats.exhaustive_parts.insert("single feeds of 70 000 / 360 000 / 1 100 000 bytes: all ill-formed, truncated two-byte heads, mostly ASCII with 48 ill-formed bytes, well-formed three-byte characters".into());
        }
        // all byte strings of length <= 3 over the class alphabet
        let maxlen = 3;
        if cx.begin_group("alphabet") {
            'outer: for a in BYTE_ALPHABET {
                for b in BYTE_ALPHABET {
                    idx += 1;
                    if !cx.mine(idx) {
                        continue;
                    }
                    if cx.used() > 0.7 || cx.out_of_time() {
                        complete = false;
                        break 'outer;
                    }
                    all_cuts_run(cx, &[a], "alpha");
                    all_cuts_run(cx, &[a, b], "alpha");
                    for c in BYTE_ALPHABET {
                        all_cuts_run(cx, &[a, b, c], "alpha");
                    }
                }
            }
        }
        if complete {
            cx.stats.exhaustive_parts.insert(format!("all byte strings of length <= {} over a 24-byte class alphabet and {} boundary/ill-formed forms in 4 contexts, each whole, at every 2-way cut, every 3-way cut (strings <= 9 bytes) and byte-at-a-time", maxlen, forms.len()));
        }
        while !cx.out_of_time() {
            if !cx.begin_group("random bytes") {
                if cx.past_only_group() {
                    break;
                }
                continue;
            }
            for _ in 0..50 {
                let bytes: Vec<u8> = match cx.rng.below(4) {
                    0 => (0..1 + cx.rng.usize(24)).map(|_| cx.rng.below(256) as u8).collect(),
                    1 => {
                        let s = gen::session(&mut cx.rng, 20, 5, 10);
                        gen::mutate_bytes(&mut cx.rng, &s)
                    }
                    2 => {
                        let mut v = Vec::new();
                        for _ in 0..1 + cx.rng.usize(8) {
                            v.extend(cx.rng.pick(&forms).clone());
                            if cx.rng.bool() {
                                v.push(b'a' + cx.rng.below(26) as u8);
                            }
                        }
                        v
                    }
                    _ => gen::text_run(&mut cx.rng, 16).into_bytes(),
                };
                // random k-way cut with optional mode switches between chunks
                let k = cx.rng.usize(5);
                let cuts = gen::random_cuts(&mut cx.rng, bytes.len(), k);
                let parts = gen::cut_bytes(&bytes, &cuts);
                let mut segs = Vec::new();
                let switches = cx.rng.below(3) == 0;
                for p in parts {
                    segs.push(Seg::Bytes(p));
                    if switches && cx.rng.below(3) == 0 {
                        segs.push(Seg::Switch(*cx.rng.pick(&["@", "G", "8", "x"])));
                    }
                }
                c11_run(cx, &segs, if switches { "random+switch" } else { "random" });
                // 8-bit mode from the start
                if cx.rng.below(4) == 0 {
                    let mut s2 = vec![Seg::Switch("@")];
                    s2.extend(segs.iter().filter(|s| matches!(s, Seg::Bytes(_))).cloned());
                    c11_run(cx, &s2, "8bit");
                }
            }
        }
    }
    fn replay(&self, case: &Case, cx: &mut Ctx) {
        let segs: Vec<Seg> = case
            .ops
            .iter()
            .filter_map(|o| match o {
                Op::FeedBytes(b) => Some(Seg::Bytes(b.clone())),
                Op::Charset(c) => Some(Seg::Switch(match c.as_str() {
                    "@" => "@",
                    "G" => "G",
                    "8" => "8",
                    _ => "x",
                })),
                _ => None,
            })
            .collect();
        c11_run(cx, &segs, "replay");
    }
}

// =============================================================================================
// C02
// =============================================================================================

pub struct C02Check;
pub static C02: C02Check = C02Check;

#[derive(Clone, Copy, Debug, PartialEq, Eq)]
enum Mode {
    Chars,
    BytesUtf8,
    Bytes8,
}

/// The Screen is attached to the parser DIRECTLY here, not through the pass-through listener of the
/// other monitors: this pair monitor needs no per-call observation, and a wrapper would hide
/// whatever the parser does through listener methods the wrapper does not know (a defaulted trait
/// method that only Screen overrides).
fn run_stream(c: u32, l: u32, mode: Mode, units: &[Vec<u8>]) -> Result<Snap, crate::sys::PanicInfo> {
    use std::sync::{Arc, Mutex};
    crate::sys::catch(|| {
        let scr = Arc::new(Mutex::new(memterm::screen::Screen::new(c, l)));
        if mode == Mode::Chars {
            let mut p = memterm::parser::Parser::new(scr.clone());
            for u in units {
                p.feed(String::from_utf8_lossy(u).into_owned());
            }
        } else {
            let mut bp = memterm::byte_parser::ByteParser::new(scr.clone());
            if mode == Mode::Bytes8 {
                bp.select_other_charset("@");
            }
            for u in units {
                bp.feed(u);
            }
        }
        let g = scr.lock().unwrap_or_else(|e| e.into_inner());
        crate::snapshot::snapshot(&g)
    })
}

/// `stream` is bytes; for Mode::Chars it must be valid UTF-8 and cuts are char boundaries
fn c02_pair(cx: &mut Ctx, c: u32, l: u32, mode: Mode, stream: &[u8], cuts: &[usize], whole: &Result<Snap, crate::sys::PanicInfo>, kind: &str) {
    let parts = gen::cut_bytes(stream, cuts);
    let chunked = run_stream(c, l, mode, &parts);
    let mk = || {
        let mut case = Case::new("C02", "chunk", c, l, if mode == Mode::Chars { PK::Chars } else { PK::Bytes });
        case.ops = vec![Op::FeedBytes(stream.to_vec())];
        case.aux = json!({"cuts": cuts, "mode": format!("{:?}", mode)});
        case
    };
    let cut_class = if cuts.len() == 1 {
        let k = cuts[0];
        if k == 0 || k == stream.len() {
            "edge"
        } else if mode != Mode::Chars && (stream[k] & 0xc0) == 0x80 {
            "inside-utf8"
        } else {
            "2way"
        }
    } else if cuts.len() + 1 == stream.len() {
        "unit-at-a-time"
    } else {
        "kway"
    };
    let has_esc = stream.contains(&0x1b);
    let key = format!("{:?}|{}|esc={}|{}|{}x{}", mode, cut_class, has_esc, kind, c.min(20), l.min(10));
    cx.stats.clause("pair-compared");
    cx.stats.feature(cut_class);
    match (whole, &chunked) {
        (Ok(a), Ok(b)) => {
            cx.stats.eval(&key, !stream.is_empty());
            if a != b {
                let d = a.diff(b, true);
                cx.violation(Viol {
                    prop: "C02".into(),
                    clause: "chunk-diff".into(),
                    op: format!("{:?}", mode),
                    bucket: format!("{}|esc={}", cut_class, has_esc),
                    detail: format!("stream {:?} cut at {:?} ({:?}): whole vs chunked differ: {:?}", String::from_utf8_lossy(stream), cuts, mode, d),
                    case: mk(),
                });
            }
        }
        (Err(_), Err(_)) => {
            cx.stats.count("skipped_pairs_both_panic", 1);
        }
        (Ok(_), Err(p)) | (Err(p), Ok(_)) => {
            cx.stats.eval(&key, true);
            cx.violation(Viol {
                prop: "C02".into(),
                clause: "asym-panic".into(),
                op: format!("{:?}", mode),
                bucket: panic_sig(p),
                detail: format!("stream {:?} cut at {:?} ({:?}): exactly one of the two runs panicked: {} at {}", String::from_utf8_lossy(stream), cuts, mode, p.msg, p.loc),
                case: mk(),
            });
        }
    }
    cx.stats.sample(&key, 10, || json!({"stream": String::from_utf8_lossy(stream), "cuts": cuts, "mode": format!("{:?}", mode), "geometry": format!("{}x{}", c, l)}));
}

fn char_boundaries(s: &str) -> Vec<usize> {
    let mut v: Vec<usize> = s.char_indices().map(|(i, _)| i).collect();
    v.push(s.len());
    v
}

fn c02_stream(cx: &mut Ctx, c: u32, l: u32, mode: Mode, stream: &[u8], every_cut: bool, kind: &str) {
    let whole = run_stream(c, l, mode, &[stream.to_vec()]);
    let positions: Vec<usize> = if mode == Mode::Chars {
        match std::str::from_utf8(stream) {
            Ok(s) => char_boundaries(s),
            Err(_) => return,
        }
    } else {
        (0..=stream.len()).collect()
    };
    if every_cut {
        for &k in &positions {
            c02_pair(cx, c, l, mode, stream, &[k], &whole, kind);
        }
    } else {
        for _ in 0..6 {
            let k = *cx.rng.pick(&positions);
            c02_pair(cx, c, l, mode, stream, &[k], &whole, kind);
        }
    }
    // every 3-way split of very short streams (state left by the middle chunk)
    if every_cut && positions.len() <= 26 {
        for i in 0..positions.len() {
            for j in i..positions.len() {
                c02_pair(cx, c, l, mode, stream, &[positions[i], positions[j]], &whole, kind);
            }
        }
        cx.stats.count("streams_with_every_3way_cut", 1);
    }
    // unit at a time
    if positions.len() > 2 && positions.len() < 3000 {
        let inner: Vec<usize> = positions[1..positions.len() - 1].to_vec();
        c02_pair(cx, c, l, mode, stream, &inner, &whole, kind);
    }
    // random k-way cuts incl. empty chunks
    for _ in 0..if every_cut { 8 } else { 3 } {
        let k = 1 + cx.rng.usize(6);
        let mut cuts: Vec<usize> = (0..k).map(|_| *cx.rng.pick(&positions)).collect();
        cuts.sort();
        c02_pair(cx, c, l, mode, stream, &cuts, &whole, kind);
    }
}

impl Check for C02Check {
    fn id(&self) -> &'static str {
        "C02"
    }
    fn rule(&self) -> String {
        "model-free differential pair monitor: full snapshot (cells, attributes, cursor, modes, margins, tab stops, title/icon, charset state, saved-cursor stack, dirty rows) after feeding a stream in one call vs after feeding the same stream cut into chunks (every 2-way cut of short streams incl. inside UTF-8 sequences and escape sequences, unit-at-a-time, random k-way cuts with empty chunks); Parser (char boundaries), ByteParser UTF-8, ByteParser 8-bit. Streams: generated sessions, hostile mutations, class-alphabet strings, the repository's captured sessions. distinct = (parser mode, cut class, stream has escapes, workload, geometry)".into()
    }
    fn assumptions(&self) -> Vec<String> {
        assumptions()
    }
    fn required(&self, _t: Tier) -> Vec<&'static str> {
        vec!["pair-compared", "inside-utf8", "unit-at-a-time"]
    }
    fn shard(&self, cx: &mut Ctx) {
        // captured sessions (shard 0..6 take one each)
        let names = ["cat-gpl3", "find-etc", "htop", "ls", "mc", "top", "vi"];
        let repo = std::env::var("VERIF_REPO").unwrap_or_else(|_| "/repo".into());
        if (cx.shard as usize) < names.len() && cx.begin_group("captured") {
            let p = format!("{}/assets/captured/{}.input", repo, names[cx.shard as usize]);
            if let Ok(data) = std::fs::read(&p) {
                let whole = run_stream(80, 24, Mode::BytesUtf8, &[data.clone()]);
                let n = if cx.quick() { 12 } else { 200 };
                for _ in 0..n {
                    let k = 1 + cx.rng.usize(8);
                    let cuts = gen::random_cuts(&mut cx.rng, data.len(), k);
                    c02_pair(cx, 80, 24, Mode::BytesUtf8, &data, &cuts, &whole, "captured");
                }
                cx.stats.count("captured_sessions", 1);
            }
        }
        // fixed witnesses from the property text
        if cx.shard == 0 && cx.begin_group("witness") {
            c02_stream(cx, 10, 3, Mode::BytesUtf8, b"abcdef", true, "witness");
            c02_stream(cx, 10, 3, Mode::BytesUtf8, b"\x1b[2;3Hx", true, "witness");
            c02_stream(cx, 10, 3, Mode::Chars, "\u{1b}[2;3Hxé日".as_bytes(), true, "witness");
        }
        // a pure-text chunk of 16 characters or more (what a bulk path would take) after the cursor
        // was put in a special place: below / inside / above a scrolling region, near the right
        // edge, with and without autowrap and insert mode; whole vs cut vs one unit at a time
        if cx.begin_group("long text chunks from special places") {
            let mut k = 0u64;
            for (w, l) in [(8u32, 6u32), (20, 8)] {
                for bottom in 2..l {
                    for y in 1..=l {
                        for x in [1, w / 2, w - 1, w] {
                            for n in [16usize, 17, 30] {
                                k += 1;
                                if !cx.mine(k) {
                                    continue;
                                }
                                let modes = ["", "\x1b[?7l", "\x1b[4h", "\x1b[?6h"][(k % 4) as usize];
                                let text: String = (0..n).map(|i| (b'a' + (i % 26) as u8) as char).collect();
                                let stream = format!("\x1b[1;{}r{}\x1b[{};{}H\x1b[31m{}", bottom, modes, y, x, text);
                                let data = stream.as_bytes();
                                let at = data.len() - n;
                                for mode in [Mode::Chars, Mode::BytesUtf8] {
                                    let whole = run_stream(w, l, mode, &[data.to_vec()]);
                                    // the text as one chunk of its own, as two, and unit by unit
                                    c02_pair(cx, w, l, mode, data, &[at], &whole, "long-text");
                                    c02_pair(cx, w, l, mode, data, &[at, at + n / 2], &whole, "long-text");
                                    let units: Vec<usize> = (1..data.len()).collect();
                                    c02_pair(cx, w, l, mode, data, &units, &whole, "long-text");
                                }
                            }
                        }
                    }
                }
            }
            cx.stats.exhaustive_parts.insert("text chunks of 16 / 17 / 30 characters after every (region bottom, cursor row, 4 cursor columns) on 8x6 and 20x8, with DECAWM off / IRM / DECOM rotated: whole vs own chunk vs two chunks vs unit at a time".into());
        }
        // a run of single-cell characters that contains a pair which is narrower as a string than
        // character by character (ligating Arabic, Lisu tones, flags ...), ending just before, at
        // and just after the right edge: whole, every 2-way cut, one character at a time
        if cx.begin_group("contracting pairs at the right edge") {
            let pairs = ["\u{644}\u{627}", "\u{644}\u{622}", "\u{a4fc}\u{a4fd}", "\u{1F1E9}\u{1F1EA}", "\u{2d4f}\u{2d7f}\u{2d4f}", "1\u{fe0f}", "\u{5d0}\u{200d}\u{5dc}"];
            let mut k = 0u64;
            for w in [4u32, 7, 10] {
                for pair in pairs {
                    for before in 0..=w as usize {
                        for after in 0..=3usize {
                            k += 1;
                            if !cx.mine(k) {
                                continue;
                            }
                            let text: String = format!("{}{}{}", "abcdefghijkl".chars().take(before).collect::<String>(), pair, "XYZ".chars().take(after).collect::<String>());
                            for mode in [Mode::Chars, Mode::BytesUtf8] {
                                c02_stream(cx, w, 3, mode, text.as_bytes(), true, "edge-pair");
                            }
                        }
                    }
                }
            }
            cx.stats.exhaustive_parts.insert("7 contracting character pairs x every position relative to the right edge on widths 4, 7, 10: whole vs every 2-way cut vs one unit at a time, Parser and ByteParser".into());
        }
        // an ASCII prefix of every length a block-wise fast path might key on, then the first
        // non-ASCII character of the stream where it is observable (an OSC title): U+FEFF, a
        // 2-, 3- and 4-byte character, an ill-formed byte; cut exactly before it, inside it and
        // at the block boundaries around it
        if cx.begin_group("ascii prefix then first non-ascii") {
            let mut k = 0u64;
            for n in [0usize, 1, 15, 16, 17, 31, 32, 33, 63, 64, 65, 127, 128, 255, 256, 257, 511, 512, 1024, 4096] {
                for first in ["\u{feff}", "\u{e9}", "\u{65e5}", "\u{1f600}", "\u{feff}\u{feff}"] {
                    for mode in [Mode::BytesUtf8, Mode::Chars] {
                        k += 1;
                        if !cx.mine(k) {
                            continue;
                        }
                        // the prefix is text and complete sequences only; the title starts right
                        // at offset n
                        let filler: String = (0..n).map(|i| if i % 16 == 15 { '\n' } else { (b'a' + (i % 26) as u8) as char }).collect();
                        let head = "\x1b]2;";
                        let pre = if n >= head.len() { format!("{}{}", &filler[..n - head.len()], head) } else { head.to_string() };
                        let stream = format!("{}{}t\x07tail", pre, first);
                        let data = stream.as_bytes();
                        let whole = run_stream(20, 4, mode, &[data.to_vec()]);
                        let at = pre.len();
                        let mut cutsets: Vec<Vec<usize>> = Vec::new();
                        for d in 0..=4usize {
                            cutsets.push(vec![at + d]);
                            if at >= d {
                                cutsets.push(vec![at - d]);
                            }
                        }
                        for b in [16usize, 32, 64, 256] {
                            let blocks: Vec<usize> = (1..).map(|i| i * b).take_while(|x| *x < data.len()).collect();
                            if !blocks.is_empty() {
                                cutsets.push(blocks.clone());
                                let mut with_at = blocks;
                                with_at.push(at);
                                with_at.sort();
                                with_at.dedup();
                                cutsets.push(with_at);
                            }
                        }
                        for cuts in cutsets {
                            let cuts: Vec<usize> = cuts.into_iter().filter(|c| *c > 0 && *c < data.len()).collect();
                            if mode == Mode::Chars && cuts.iter().any(|c| !stream.is_char_boundary(*c)) {
                                continue;
                            }
                            c02_pair(cx, 20, 4, mode, data, &cuts, &whole, "ascii-prefix");
                        }
                    }
                }
            }
            cx.stats.exhaustive_parts.insert("ASCII prefixes of 20 lengths (0..4096) x 5 first non-ASCII characters (incl. U+FEFF) at the start of an OSC title x cuts at, around and inside that character and at every 16/32/64/256-byte block boundary".into());
        }
        while !cx.out_of_time() {
            let (c, l) = gen::pick_geom(&mut cx.rng, cx.tier);
            if !cx.begin_group(&format!("streams {}x{}", c, l)) {
                if cx.past_only_group() {
                    break;
                }
                continue;
            }
            let maxu = if cx.rng.below(4) == 0 { 60 } else { 10 };
            let units = 1 + cx.rng.usize(maxu);
            let sess = gen::session(&mut cx.rng, c, l, units);
            let stream: String = match cx.rng.below(4) {
                0 => gen::mutate(&mut cx.rng, &sess),
                1 => {
                    let n = 1 + cx.rng.usize(6);
                    (0..n).map(|_| *cx.rng.pick(ALPHABET)).collect()
                }
                _ => sess,
            };
            let short = stream.len() <= 160;
            c02_stream(cx, c, l, Mode::Chars, stream.as_bytes(), short, "session");
            match cx.rng.below(3) {
                0 => c02_stream(cx, c, l, Mode::BytesUtf8, stream.as_bytes(), short, "session"),
                1 => {
                    let b = gen::mutate_bytes(&mut cx.rng, &stream);
                    c02_stream(cx, c, l, Mode::BytesUtf8, &b, b.len() <= 160, "hostile-bytes");
                }
                _ => {
                    let b: Vec<u8> = stream.chars().map(|ch| if (ch as u32) < 256 { ch as u32 as u8 } else { b'?' }).collect();
                    c02_stream(cx, c, l, Mode::Bytes8, &b, short, "8bit");
                }
            }
        }
    }
    fn replay(&self, case: &Case, cx: &mut Ctx) {
        let mode = match case.aux["mode"].as_str().unwrap_or("Chars") {
            "BytesUtf8" => Mode::BytesUtf8,
            "Bytes8" => Mode::Bytes8,
            _ => Mode::Chars,
        };
        let cuts: Vec<usize> = case.aux["cuts"].as_array().map(|a| a.iter().filter_map(|x| x.as_u64().map(|v| v as usize)).collect()).unwrap_or_default();
        for op in &case.ops {
            if let Op::FeedBytes(b) = op {
                let whole = run_stream(case.columns, case.lines, mode, &[b.clone()]);
                c02_pair(cx, case.columns, case.lines, mode, b, &cuts, &whole, "replay");
            }
        }
    }
}
