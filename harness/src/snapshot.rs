//! Normalised, embedder-visible snapshot of a `Screen` (DESIGN §3.2).
//!
//! absent row/cell == default_char() of the current mode set; keys outside the visible grid are
//! not part of the snapshot; cell text is compared modulo NFC; nothing else is normalised.

use std::collections::BTreeSet;

use memterm::modes::DECSCNM;
use memterm::screen::{CharOpts, Charset, Screen};
use unicode_normalization::UnicodeNormalization;

use crate::golden;

pub const BOLD: u8 = 1;
pub const ITALICS: u8 = 2;
pub const UNDERSCORE: u8 = 4;
pub const STRIKE: u8 = 8;
pub const REVERSE: u8 = 16;
pub const BLINK: u8 = 32;

pub const NAMES: [&str; 16] = [
    "black",
    "red",
    "green",
    "brown",
    "blue",
    "magenta",
    "cyan",
    "white",
    "brightblack",
    "brightred",
    "brightgreen",
    "brightbrown",
    "brightblue",
    "brightmagenta",
    "brightcyan",
    "brightwhite",
];

#[derive(Clone, PartialEq, Eq, Hash, Debug, PartialOrd, Ord)]
pub enum Col {
    Default,
    Named(u8),
    Rgb(u32),
    /// anything that is neither a documented name nor six hex digits
    Bad(String),
}

impl Col {
    pub fn parse(s: &str) -> Col {
        if s == "default" {
            return Col::Default;
        }
        if let Some(i) = NAMES.iter().position(|n| *n == s) {
            return Col::Named(i as u8);
        }
        if s.len() == 6 && s.bytes().all(|b| b.is_ascii_hexdigit()) {
            if let Ok(v) = u32::from_str_radix(s, 16) {
                return Col::Rgb(v);
            }
        }
        Col::Bad(s.to_string())
    }
    pub fn show(&self) -> String {
        match self {
            Col::Default => "default".into(),
            Col::Named(i) => NAMES[*i as usize].into(),
            Col::Rgb(v) => format!("{:06x}", v),
            Col::Bad(s) => format!("BAD<{}>", s),
        }
    }
    pub fn is_bad(&self) -> bool {
        matches!(self, Col::Bad(_))
    }
}

#[derive(Clone, PartialEq, Eq, Hash, Debug)]
pub struct Attr {
    pub fg: Col,
    pub bg: Col,
    pub flags: u8,
}

impl Attr {
    pub fn default_with(reverse: bool) -> Attr {
        Attr { fg: Col::Default, bg: Col::Default, flags: if reverse { REVERSE } else { 0 } }
    }
    pub fn of(c: &CharOpts) -> Attr {
        let mut flags = 0;
        if c.bold {
            flags |= BOLD
        }
        if c.italics {
            flags |= ITALICS
        }
        if c.underscore {
            flags |= UNDERSCORE
        }
        if c.strikethrough {
            flags |= STRIKE
        }
        if c.reverse {
            flags |= REVERSE
        }
        if c.blink {
            flags |= BLINK
        }
        Attr { fg: Col::parse(&c.fg), bg: Col::parse(&c.bg), flags }
    }
    pub fn show(&self) -> String {
        let mut s = format!("{}/{}", self.fg.show(), self.bg.show());
        for (b, n) in [(BOLD, "b"), (ITALICS, "i"), (UNDERSCORE, "u"), (STRIKE, "s"), (REVERSE, "r"), (BLINK, "k")] {
            if self.flags & b != 0 {
                s.push('+');
                s.push_str(n);
            }
        }
        s
    }
}

#[derive(Clone, PartialEq, Eq, Hash, Debug)]
pub struct Cell {
    pub text: String,
    pub attr: Attr,
}

impl Cell {
    pub fn blank(attr: Attr) -> Cell {
        Cell { text: " ".into(), attr }
    }
    /// the cell text is kept exactly as stored (model-free pair monitors compare it exactly);
    /// the reference-semantics comparison is modulo NFC (`same_modulo_nfc`)
    pub fn of(c: &CharOpts) -> Cell {
        Cell { text: c.data.clone(), attr: Attr::of(c) }
    }
    pub fn same_modulo_nfc(&self, o: &Cell) -> bool {
        self.attr == o.attr && (self.text == o.text || nfc(&self.text) == nfc(&o.text))
    }
    pub fn show(&self) -> String {
        format!("{:?}[{}]", self.text, self.attr.show())
    }
}

pub fn nfc(s: &str) -> String {
    if s.bytes().all(|b| b < 0x80) {
        s.to_string()
    } else {
        s.nfc().collect()
    }
}

/// identity of a 256-entry translation table: one of the four golden tables or "unknown"
#[derive(Clone, Copy, PartialEq, Eq, Hash, Debug)]
pub enum Table {
    Lat1,
    Vt100,
    IbmPc,
    Vax42,
    Unknown(u64),
}

impl Table {
    pub fn of(t: &[char; 256]) -> Table {
        let g = golden::get();
        if t == &g.lat1 {
            Table::Lat1
        } else if t == &g.vt100 {
            Table::Vt100
        } else if t == &g.ibmpc {
            Table::IbmPc
        } else if t == &g.vax42 {
            Table::Vax42
        } else {
            let mut h: u64 = 0xcbf29ce484222325;
            for c in t.iter() {
                h ^= *c as u64;
                h = h.wrapping_mul(0x100000001b3);
            }
            Table::Unknown(h)
        }
    }
    pub fn chars(&self) -> Option<&'static [char; 256]> {
        let g = golden::get();
        match self {
            Table::Lat1 => Some(&g.lat1),
            Table::Vt100 => Some(&g.vt100),
            Table::IbmPc => Some(&g.ibmpc),
            Table::Vax42 => Some(&g.vax42),
            Table::Unknown(_) => None,
        }
    }
    pub fn for_code(code: &str) -> Option<Table> {
        match code {
            "B" => Some(Table::Lat1),
            "0" => Some(Table::Vt100),
            "U" => Some(Table::IbmPc),
            "V" => Some(Table::Vax42),
            _ => None,
        }
    }
}

/// A row with structural sharing: snapshots taken in sequence share their unchanged rows.
#[derive(Clone, PartialEq, Eq, Debug)]
pub struct Row(pub std::sync::Arc<Vec<Cell>>);

impl Row {
    pub fn new(v: Vec<Cell>) -> Row {
        Row(std::sync::Arc::new(v))
    }
}

impl std::ops::Deref for Row {
    type Target = Vec<Cell>;
    fn deref(&self) -> &Vec<Cell> {
        &self.0
    }
}

impl std::ops::DerefMut for Row {
    fn deref_mut(&mut self) -> &mut Vec<Cell> {
        std::sync::Arc::make_mut(&mut self.0)
    }
}

impl From<Vec<Cell>> for Row {
    fn from(v: Vec<Cell>) -> Row {
        Row::new(v)
    }
}

fn cell_matches(c: &CharOpts, cell: &Cell) -> bool {
    let flags_ok = ((cell.attr.flags & BOLD != 0) == c.bold)
        && ((cell.attr.flags & ITALICS != 0) == c.italics)
        && ((cell.attr.flags & UNDERSCORE != 0) == c.underscore)
        && ((cell.attr.flags & STRIKE != 0) == c.strikethrough)
        && ((cell.attr.flags & REVERSE != 0) == c.reverse)
        && ((cell.attr.flags & BLINK != 0) == c.blink);
    if !flags_ok {
        return false;
    }
    c.data == cell.text && Col::parse(&c.fg) == cell.attr.fg && Col::parse(&c.bg) == cell.attr.bg
}

#[derive(Clone, PartialEq, Eq, Hash, Debug)]
pub struct Saved {
    pub x: u32,
    pub y: u32,
    pub attr: Attr,
    pub hidden: bool,
    pub g1_active: bool,
    pub g0: Table,
    pub g1: Table,
    pub origin: bool,
    pub wrap: bool,
}

#[derive(Clone, PartialEq, Eq, Debug)]
pub struct Snap {
    pub lines: u32,
    pub columns: u32,
    pub grid: Vec<Row>,
    pub cx: u32,
    pub cy: u32,
    pub cattr: Attr,
    pub hidden: bool,
    pub modes: BTreeSet<u32>,
    pub margins: Option<(u32, u32)>,
    pub tabstops: BTreeSet<u32>,
    pub title: String,
    pub icon: String,
    pub g1_active: bool,
    pub g0: Table,
    pub g1: Table,
    pub saved: Vec<Saved>,
    pub dirty: BTreeSet<u32>,
    pub saved_columns: Option<u32>,
}

pub fn snapshot(s: &Screen) -> Snap {
    snapshot_with(s, None)
}

/// Snapshot sharing unchanged rows with `prev` (rows are compared against the live buffer
/// without building them, so a long run of small steps costs memory only for what changed).
pub fn snapshot_with(s: &Screen, prev: Option<&Snap>) -> Snap {
    let reverse = s.mode.contains(&DECSCNM);
    let dflt = Cell::blank(Attr::default_with(reverse));
    let prev = prev.filter(|p| p.columns == s.columns);
    let mut blank_row: Option<Row> = None;
    let mut grid: Vec<Row> = Vec::with_capacity(s.lines as usize);
    for y in 0..s.lines {
        let line = s.buffer.get(&y).filter(|l| !l.is_empty());
        // reuse the previous row if it still describes this line
        if let Some(p) = prev {
            if let Some(prow) = p.grid.get(y as usize) {
                let same = match line {
                    None => prow.iter().all(|c| *c == dflt),
                    Some(line) => (0..s.columns).all(|x| match line.get(&x) {
                        None => prow[x as usize] == dflt,
                        Some(c) => cell_matches(c, &prow[x as usize]),
                    }),
                };
                if same {
                    grid.push(prow.clone());
                    continue;
                }
            }
        }
        match line {
            None => {
                let r = blank_row.get_or_insert_with(|| Row::new(vec![dflt.clone(); s.columns as usize]));
                grid.push(r.clone());
            }
            Some(line) => {
                let mut row = Vec::with_capacity(s.columns as usize);
                for x in 0..s.columns {
                    match line.get(&x) {
                        None => row.push(dflt.clone()),
                        Some(c) => row.push(Cell::of(c)),
                    }
                }
                grid.push(Row::new(row));
            }
        }
    }
    Snap {
        lines: s.lines,
        columns: s.columns,
        grid,
        cx: s.cursor.x,
        cy: s.cursor.y,
        cattr: Attr::of(&s.cursor.attr),
        hidden: s.cursor.hidden,
        modes: s.mode.iter().cloned().collect(),
        margins: s.margins.map(|m| (m.top, m.bottom)),
        tabstops: s.tabstops.iter().cloned().collect(),
        title: s.title.clone(),
        icon: s.icon_name.clone(),
        g1_active: s.charset == Charset::G1,
        g0: Table::of(&s.g0_charset),
        g1: Table::of(&s.g1_charset),
        saved: s
            .savepoints
            .iter()
            .map(|p| Saved {
                x: p.cursor.x,
                y: p.cursor.y,
                attr: Attr::of(&p.cursor.attr),
                hidden: p.cursor.hidden,
                g1_active: p.charset == Charset::G1,
                g0: Table::of(&p.g0_charset),
                g1: Table::of(&p.g1_charset),
                origin: p.origin,
                wrap: p.wrap,
            })
            .collect(),
        dirty: s.dirty.iter().cloned().collect(),
        saved_columns: s.saved_columns,
    }
}

impl Snap {
    pub fn has_mode(&self, m: u32) -> bool {
        self.modes.contains(&m)
    }
    pub fn default_cell(&self) -> Cell {
        Cell::blank(Attr::default_with(self.has_mode(DECSCNM)))
    }
    /// scrolling region or whole screen
    pub fn region(&self) -> (u32, u32) {
        self.margins.unwrap_or((0, self.lines.saturating_sub(1)))
    }
    pub fn row_text(&self, y: usize) -> String {
        self.grid[y].iter().map(|c| c.text.as_str()).collect()
    }
    /// compact human-readable rendering (for replay output and evidence samples)
    pub fn render(&self) -> String {
        let mut o = String::new();
        o.push_str(&format!(
            "{}x{} cursor=({},{}){} attr={} margins={:?} modes={:?} tabs={:?} g{} g0={:?} g1={:?} saved={} dirty={:?} title={:?} icon={:?} saved_columns={:?}\n",
            self.columns,
            self.lines,
            self.cx,
            self.cy,
            if self.hidden { " hidden" } else { "" },
            self.cattr.show(),
            self.margins,
            self.modes,
            self.tabstops,
            if self.g1_active { 1 } else { 0 },
            self.g0,
            self.g1,
            self.saved.len(),
            self.dirty,
            self.title,
            self.icon,
            self.saved_columns
        ));
        for y in 0..self.lines as usize {
            o.push_str(&format!("  {:>3} |{}|\n", y, self.row_text(y).escape_debug()));
        }
        o
    }
    /// snapshot equality ignoring the dirty set
    pub fn eq_nodirty(&self, o: &Snap) -> bool {
        self.lines == o.lines
            && self.columns == o.columns
            && self.cx == o.cx
            && self.cy == o.cy
            && self.cattr == o.cattr
            && self.hidden == o.hidden
            && self.modes == o.modes
            && self.margins == o.margins
            && self.tabstops == o.tabstops
            && self.title == o.title
            && self.icon == o.icon
            && self.g1_active == o.g1_active
            && self.g0 == o.g0
            && self.g1 == o.g1
            && self.saved == o.saved
            && self.saved_columns == o.saved_columns
            && self.grid == o.grid
    }
    /// list of component names that differ (for diagnostics)
    pub fn diff(&self, o: &Snap, with_dirty: bool) -> Vec<String> {
        let mut d = Vec::new();
        if self.lines != o.lines || self.columns != o.columns {
            d.push(format!("geometry {}x{} vs {}x{}", self.columns, self.lines, o.columns, o.lines));
            return d;
        }
        if (self.cx, self.cy) != (o.cx, o.cy) {
            d.push(format!("cursor ({},{}) vs ({},{})", self.cx, self.cy, o.cx, o.cy));
        }
        if self.cattr != o.cattr {
            d.push(format!("rendition {} vs {}", self.cattr.show(), o.cattr.show()));
        }
        if self.hidden != o.hidden {
            d.push("hidden".into());
        }
        if self.modes != o.modes {
            d.push(format!("modes {:?} vs {:?}", self.modes, o.modes));
        }
        if self.margins != o.margins {
            d.push(format!("margins {:?} vs {:?}", self.margins, o.margins));
        }
        if self.tabstops != o.tabstops {
            d.push(format!("tabstops {:?} vs {:?}", self.tabstops, o.tabstops));
        }
        if self.title != o.title {
            d.push(format!("title {:?} vs {:?}", self.title, o.title));
        }
        if self.icon != o.icon {
            d.push(format!("icon {:?} vs {:?}", self.icon, o.icon));
        }
        if (self.g1_active, self.g0, self.g1) != (o.g1_active, o.g0, o.g1) {
            d.push("charset".into());
        }
        if self.saved != o.saved {
            d.push(format!("saved-stack depth {} vs {}", self.saved.len(), o.saved.len()));
        }
        if self.saved_columns != o.saved_columns {
            d.push("saved_columns".into());
        }
        if with_dirty && self.dirty != o.dirty {
            d.push(format!("dirty {:?} vs {:?}", self.dirty, o.dirty));
        }
        for y in 0..self.lines as usize {
            for x in 0..self.columns as usize {
                if self.grid[y][x] != o.grid[y][x] {
                    d.push(format!("cell({},{}) {} vs {}", y, x, self.grid[y][x].show(), o.grid[y][x].show()));
                    if d.len() > 12 {
                        d.push("...".into());
                        return d;
                    }
                }
            }
        }
        d
    }
    pub fn rows_differing(&self, o: &Snap) -> Vec<u32> {
        let mut v = Vec::new();
        let n = self.lines.min(o.lines) as usize;
        for y in 0..n {
            if self.grid[y] != o.grid[y] {
                v.push(y as u32);
            }
        }
        v
    }
}
