//! Workload generators: geometries, boundary parameters, state-zoo setups, terminal sessions,
//! hostile mutations, chunkers.

use crate::call::Call;
use crate::core::Tier;
use crate::rng::Rng;
use crate::sys::Op;

pub const G_QUICK: [(u32, u32); 8] = [(1, 1), (1, 4), (4, 1), (2, 2), (3, 3), (5, 4), (8, 3), (10, 6)];
pub const G_EXTRA: [(u32, u32); 8] = [(2, 1), (1, 2), (6, 6), (16, 8), (40, 12), (80, 24), (132, 24), (140, 40)];

pub fn geoms(tier: Tier) -> Vec<(u32, u32)> {
    let mut v = G_QUICK.to_vec();
    if tier == Tier::Thorough {
        v.extend(G_EXTRA.iter().cloned());
    }
    v
}

/// small geometries (weighted) with an occasional big one
pub fn pick_geom(rng: &mut Rng, tier: Tier) -> (u32, u32) {
    let r = rng.below(100);
    if r < 64 {
        *rng.pick(&G_QUICK)
    } else if r < 67 {
        // very wide and short / very tall and narrow: cheap (small area), yet beyond every size a
        // special case might key on (132 columns, 24 lines, 100, 128, ...)
        (rng.range(100, 170), rng.range(1, 3))
    } else if r < 70 {
        (rng.range(1, 4), rng.range(20, 48))
    } else if r < 85 {
        (rng.range(1, 12), rng.range(1, 8))
    } else if tier == Tier::Thorough || r < 93 {
        *rng.pick(&G_EXTRA)
    } else {
        (rng.range(1, 140), rng.range(1, 40))
    }
}

/// boundary-biased numeric parameter relative to `size`: {absent,0,1,2,..,size+2,9999}
pub fn param(rng: &mut Rng, size: u32) -> Option<u32> {
    match rng.below(12) {
        0 => None,
        1 => Some(0),
        2 => Some(1),
        3 => Some(size),
        4 => Some(size + 1),
        5 => Some(size.saturating_sub(1)),
        6 => Some(9999),
        7 => Some(2),
        _ => Some(rng.range(0, size + 2)),
    }
}

/// the full finite parameter domain P(size)
pub fn params_all(size: u32) -> Vec<Option<u32>> {
    let mut v = vec![None];
    for i in 0..=size + 2 {
        v.push(Some(i));
    }
    v.push(Some(9999));
    v
}

pub const MARKERS: &str = "ABCDEFGHIJKLMNOPQRSTUVWXYZabcdefghijklmnopqrstuvwxyz0123456789!#$%&*+-/<=>?@^~";

pub fn marker(x: u32, y: u32, columns: u32) -> char {
    let m: Vec<char> = MARKERS.chars().collect();
    let idx = if (columns as usize) * 8 <= m.len() { y * columns + x } else { y * 7 + x };
    m[idx as usize % m.len()]
}

pub const WIDE: [char; 4] = ['コ', '日', '😀', '本'];
pub const COMBINING: [char; 3] = ['\u{0308}', '\u{0301}', '\u{20dd}'];
pub const ZEROW: [char; 4] = ['\u{200b}', '\u{feff}', '\0', '\u{7f}'];
pub const NARROW_NONASCII: [char; 6] = ['é', 'ж', 'Я', 'ß', '│', 'λ'];
/// multi-character sequences whose width AS A STRING (ligatures, emoji modifiers, ZWJ and
/// variation-selector sequences, flags) differs from the sum of the widths of their characters -
/// the emulator works cell by cell, so anything that measures a run or a cell text as a whole
/// goes wrong exactly here
pub const SEQUENCES: [&str; 12] = [
    "\u{644}\u{627}",
    "\u{1F44D}\u{1F3FD}",
    "\u{1F468}\u{200D}\u{1F469}",
    "\u{2764}\u{FE0F}",
    "1\u{FE0F}\u{20E3}",
    "#\u{FE0F}",
    "\u{a9}\u{FE0F}",
    "\u{2764}\u{FE0E}",
    "\u{5D0}\u{200D}\u{5DC}",
    "\u{1F1E9}\u{1F1EA}",
    "\u{26A0}\u{FE0F}x",
    "\u{1F600}\u{FE0E}",
];

/// Class-representative sample of all of Unicode beyond Latin-1: every scalar value is classified
/// by the predicates an implementation could plausibly branch on (display width, combining mark,
/// alphabetic / numeric / whitespace / control / upper / lower case, canonically decomposable, low byte equal
/// to a byte of the escape-sequence grammar, UTF-8 lead byte, plane), and up to 48 members per class are kept,
/// spread over the class. `uchar` picks a class uniformly, then a member - so rare classes (a
/// handful of characters) are drawn as often as huge ones.
fn uclasses() -> &'static Vec<Vec<char>> {
    use std::collections::BTreeMap;
    use std::sync::OnceLock;
    use unicode_normalization::char::is_combining_mark;
    use unicode_width::UnicodeWidthChar;
    static T: OnceLock<Vec<Vec<char>>> = OnceLock::new();
    T.get_or_init(|| {
        let mut m: BTreeMap<(u8, u16, u8, u8), Vec<char>> = BTreeMap::new();
        let mut counts: BTreeMap<(u8, u16, u8, u8), u32> = BTreeMap::new();
        for cp in 0x100u32..=0x10ffff {
            let c = match char::from_u32(cp) {
                Some(c) => c,
                None => continue,
            };
            let w = c.width().map(|w| w as u8).unwrap_or(9);
            let mut flags = 0u16;
            for (i, b) in [is_combining_mark(c), c.is_alphabetic(), c.is_numeric(), c.is_whitespace(), c.is_control(), c.is_uppercase(), c.is_lowercase(), { let mut same = true; unicode_normalization::char::decompose_canonical(c, |d| same &= d == c); !same }, c.is_alphanumeric() && !c.is_alphabetic() && !c.is_numeric()]
                .iter()
                .enumerate()
            {
                if *b {
                    flags |= 1 << i;
                }
            }
            let low = match (cp & 0xff) as u8 {
                0x07 | 0x18 | 0x1a | 0x1b | 0x5b | 0x5c | 0x5d | 0x9b | 0x9c | 0x9d | 0x3b | 0x3f | 0x24 | 0x0e | 0x0f | 0x08..=0x0d => 1,
                b'0'..=b'9' => 2,
                _ => 0,
            };
            let plane = match cp >> 16 {
                0 => 0,
                1 => 1,
                14 => 3,
                _ => 2,
            };
            // the UTF-8 lead byte stands in for "which block" (0xC4..0xDF pooled, then one value
            // per lead byte 0xE0..0xF4)
            let lead = {
                let mut b = [0u8; 4];
                let first = c.encode_utf8(&mut b).as_bytes()[0];
                if first < 0xe0 {
                    0
                } else {
                    first
                }
            };
            let plane = plane * 32 + (lead & 0x1f) + if lead >= 0xf0 { 16 } else { 0 };
            let key = (w, flags, low, plane);
            let n = counts.entry(key).or_insert(0);
            *n += 1;
            let v = m.entry(key).or_default();
            // keep the first 16 and then every (n/16)-th: members spread over the class
            if v.len() < 16 || (v.len() < 48 && *n % (1 + *n / 16) == 0) {
                v.push(c);
            }
        }
        m.into_values().collect()
    })
}

/// a character from the class-representative Unicode sample
pub fn uchar(rng: &mut Rng) -> char {
    let t = uclasses();
    let cl = &t[rng.usize(t.len())];
    cl[rng.usize(cl.len())]
}

pub fn uclass_count() -> usize {
    uclasses().len()
}

/// mode numbers that other terminals give a meaning to (DEC manuals, xterm ctlseqs)
pub const OTHER_MODES: [u32; 40] = [
    1, 2, 8, 9, 12, 18, 19, 30, 35, 40, 41, 42, 44, 45, 47, 66, 67, 69, 80, 95, 1000, 1002, 1003, 1004, 1005, 1006, 1015, 1034, 1047, 1048, 1049,
    2004, 2026, 10, 11, 13, 14, 34, 1007, 9999,
];

/// a short printable text run
pub fn text_run(rng: &mut Rng, max: usize) -> String {
    let n = 1 + rng.usize(max.max(1));
    let mut s = String::new();
    for _ in 0..n {
        let r = rng.below(100);
        let c = if r < 70 {
            (b'!' + rng.below(94) as u8) as char
        } else if r < 78 {
            ' '
        } else if r < 86 {
            *rng.pick(&NARROW_NONASCII)
        } else if r < 92 {
            *rng.pick(&WIDE)
        } else if r < 96 {
            *rng.pick(&COMBINING)
        } else if r < 97 {
            *rng.pick(&ZEROW[..2])
        } else if r < 98 {
            uchar(rng)
        } else {
            s.push_str(*rng.pick(&SEQUENCES[..]));
            continue;
        };
        s.push(c);
    }
    s
}

#[derive(Clone, Debug, Default)]
pub struct Profile {
    /// probability (percent) knobs; 0 = default
    pub sparse_rows: u32,
    pub wide: u32,
    pub pending_wrap: u32,
    pub margins: u32,
    pub irm: u32,
    pub charset8: u32,
    pub saved: u32,
    pub tabs: u32,
    pub no_resize: bool,
}

fn pct(rng: &mut Rng, p: u32, dflt: u32) -> bool {
    let p = if p == 0 { dflt } else { p };
    rng.below(100) < p as u64
}

/// SGR parameter list producing a visible, non-default rendition
pub fn rendition(rng: &mut Rng) -> Vec<u32> {
    let mut v = Vec::new();
    let n = 1 + rng.usize(3);
    for _ in 0..n {
        match rng.below(8) {
            0 => v.push(30 + rng.below(8) as u32),
            1 => v.push(40 + rng.below(8) as u32),
            2 => v.push(*rng.pick(&[1u32, 3, 4, 5, 7, 9])),
            3 => v.push(90 + rng.below(8) as u32),
            4 => {
                let n = if rng.below(5) == 0 { *rng.pick(&[0u32, 15, 16, 231, 232, 255, 256, 257, 9999]) } else { rng.below(256) as u32 };
                v.extend([38, 5, n])
            }
            5 => {
                // colour components, boundary-biased (255 / 256 / 257 are where range checks sit)
                let mut comp = |rng: &mut Rng| if rng.below(6) == 0 { *rng.pick(&[0u32, 255, 256, 257, 9999]) } else { rng.below(256) as u32 };
                let (r, g, b) = (comp(rng), comp(rng), comp(rng));
                v.extend([if rng.bool() { 48 } else { 38 }, 2, r, g, b])
            }
            6 => v.push(100 + rng.below(8) as u32),
            _ => v.push(*rng.pick(&[22u32, 23, 24, 25, 27, 29, 39, 49])),
        }
    }
    v
}

fn sgr_seq(v: &[u32]) -> String {
    format!("\x1b[{}m", v.iter().map(|x| x.to_string()).collect::<Vec<_>>().join(";"))
}

/// State-zoo setup: a history (API calls and fed text) that reaches a state exhibiting the
/// features the properties talk about.  Every cell gets a distinct marker where possible, rows
/// get distinct colours, columns an underline/bold pattern.
pub fn setup(rng: &mut Rng, columns: u32, lines: u32, prof: &Profile) -> Vec<Op> {
    let mut ops: Vec<Op> = Vec::new();
    let c = columns;
    let l = lines;
    // earlier geometry history
    if !prof.no_resize && rng.below(100) < 6 {
        ops.push(Op::Api(Call::Resize(Some(l + rng.range(0, 2)), Some(c + rng.range(0, 3)))));
        ops.push(Op::Api(Call::Resize(Some(l), Some(c))));
    }
    // fill
    let fill = rng.below(100);
    let sparse = pct(rng, prof.sparse_rows, 35);
    if fill >= 8 {
        let mut s = String::new();
        for y in 0..l {
            if sparse && rng.below(100) < 45 {
                continue; // never-written row
            }
            s.push_str(&format!("\x1b[{};1H", y + 1));
            s.push_str(&sgr_seq(&[0, 31 + (y % 7), if y % 2 == 1 { 1 } else { 22 }]));
            let upto = if sparse && rng.below(100) < 30 { rng.range(0, c) } else { c };
            let mut x = 0;
            while x < upto {
                if x % 3 == 1 {
                    s.push_str("\x1b[4m");
                } else if x % 3 == 2 {
                    s.push_str("\x1b[24;44m");
                } else {
                    s.push_str("\x1b[49m");
                }
                if c - x >= 2 && pct(rng, prof.wide, 4) {
                    s.push(*rng.pick(&WIDE));
                    x += 2;
                } else if rng.below(100) < 3 {
                    // a character of the class-representative Unicode sample (or a no-break /
                    // ideographic space) instead of the marker
                    use unicode_width::UnicodeWidthChar;
                    let u = match rng.below(4) {
                        0 => '\u{a0}',
                        1 => '\u{3000}',
                        _ => uchar(rng),
                    };
                    match u.width() {
                        Some(1) => {
                            s.push(u);
                            x += 1;
                        }
                        Some(2) if c - x >= 2 => {
                            s.push(u);
                            x += 2;
                        }
                        _ => {
                            s.push(marker(x, y, c));
                            x += 1;
                        }
                    }
                } else {
                    s.push(marker(x, y, c));
                    x += 1;
                    if rng.below(100) < 2 {
                        s.push(*rng.pick(&COMBINING));
                    }
                }
            }
        }
        // the fill must not wrap/scroll: turn autowrap off while filling
        ops.push(Op::Feed(format!("\x1b[?7l{}\x1b[?7h\x1b[m", s)));
    }
    // rows / stretches of blanks that carry nothing but attributes (coloured bars)
    if rng.below(100) < 25 {
        let y = rng.range(1, l);
        match rng.below(3) {
            0 => ops.push(Op::Feed(format!("\x1b[{};1H\x1b[0;{}m\x1b[2K\x1b[m", y, 41 + rng.below(6)))),
            1 => ops.push(Op::Feed(format!("\x1b[{};1H\x1b[0;7m{}\x1b[m", y, " ".repeat(rng.range(1, c) as usize)))),
            _ => ops.push(Op::Feed(format!("\x1b[{};{}H\x1b[0;4;9m\x1b[{}X\x1b[m", y, rng.range(1, c), rng.range(1, c)))),
        }
    }
    if rng.below(100) < 30 {
        ops.push(Op::Api(Call::Display));
    }
    if l >= 2 && pct(rng, prof.margins, 50) {
        let top = rng.range(0, l - 2);
        let bot = rng.range(top + 1, l - 1);
        ops.push(Op::Api(Call::SetMargins(Some(top + 1), Some(bot + 1))));
        if rng.below(100) < 35 {
            ops.push(Op::Api(Call::SetMode(vec![6], true)));
        }
    } else if rng.below(100) < 8 {
        ops.push(Op::Api(Call::SetMode(vec![6], true)));
    }
    if pct(rng, prof.irm, 15) {
        ops.push(Op::Api(Call::SetMode(vec![4], false)));
    }
    if rng.below(100) < 20 {
        ops.push(Op::Api(Call::SetMode(vec![20], false)));
    }
    if rng.below(100) < 25 {
        ops.push(Op::Api(Call::ResetMode(vec![7], true)));
    }
    if rng.below(100) < 15 {
        ops.push(Op::Api(Call::SetMode(vec![5], true)));
        // ... and with reverse video on, blanks written with reverse explicitly off: they equal
        // the power-on default cell but not the screen's current default cell
        if rng.bool() {
            let y = rng.range(1, l);
            match rng.below(3) {
                0 => ops.push(Op::Feed(format!("\x1b[{};1H\x1b[0;27m\x1b[2K\x1b[m", y))),
                1 => ops.push(Op::Feed(format!("\x1b[{};1H\x1b[0;27m{}\x1b[m", y, " ".repeat(rng.range(1, c) as usize)))),
                _ => ops.push(Op::Feed(format!("\x1b[0;27m\x1b[{};{}H\x1b[1J", y, rng.range(1, c)))),
            }
        }
    }
    if rng.below(100) < 12 {
        ops.push(Op::Api(Call::ResetMode(vec![25], true)));
    }
    if pct(rng, prof.charset8, 12) {
        let code = *rng.pick(&["0", "U", "V", "B"]);
        let mode = *rng.pick(&["(", ")"]);
        ops.push(Op::Api(Call::DefineCharset(code.into(), mode.into())));
        if rng.bool() {
            ops.push(Op::Api(Call::ShiftOut));
        }
    }
    // mode numbers the emulator does not implement (what xterm and the DEC manuals define for them
    // is irrelevant: they are recorded and must change nothing, now or later)
    if rng.below(100) < 15 {
        for _ in 0..1 + rng.below(2) {
            let n = if rng.bool() { *rng.pick(&OTHER_MODES) } else { rng.range(0, 130) };
            let private = rng.below(4) != 0;
            if !(private && [3u32, 5, 6, 7, 25].contains(&n)) && !(!private && [4u32, 20, 96, 160, 192, 224, 800].contains(&n)) {
                ops.push(Op::Api(Call::SetMode(vec![n], private)));
            }
        }
    }
    if rng.below(100) < 55 {
        ops.push(Op::Api(Call::Sgr(rendition(rng))));
    }
    if pct(rng, prof.tabs, 25) {
        for _ in 0..1 + rng.usize(3) {
            ops.push(Op::Api(Call::CursorToColumn(Some(rng.range(1, c)))));
            if rng.below(4) == 0 {
                ops.push(Op::Api(Call::ClearTabStop(Some(*rng.pick(&[0u32, 3])))));
            } else {
                ops.push(Op::Api(Call::SetTabStop));
            }
        }
    }
    if pct(rng, prof.saved, 25) {
        for _ in 0..1 + rng.usize(2) {
            ops.push(Op::Api(Call::CursorPosition(Some(rng.range(1, l)), Some(rng.range(1, c)))));
            ops.push(Op::Api(Call::Sgr(rendition(rng))));
            ops.push(Op::Api(Call::SaveCursor));
        }
    }
    if rng.below(100) < 15 {
        ops.push(Op::Api(Call::SetTitle(text_run(rng, 6))));
    }
    // hidden-cell producers
    if rng.below(100) < 10 {
        match rng.below(3) {
            0 => {
                ops.push(Op::Api(Call::CursorPosition(Some(rng.range(1, l)), Some(rng.range(1, c)))));
                ops.push(Op::Api(Call::InsertCharacters(Some(1))));
            }
            1 => {
                ops.push(Op::Api(Call::CursorPosition(Some(rng.range(1, l)), Some(c))));
                ops.push(Op::Api(Call::Draw("w".into())));
                ops.push(Op::Api(Call::EraseInLine(Some(1))));
            }
            _ => {
                ops.push(Op::Api(Call::CursorPosition(Some(1), Some(1))));
                ops.push(Op::Api(Call::ReverseIndex));
            }
        }
    }
    // a headless half: the lead of a double-width character deleted, its empty second half slides
    // left (into column 0 when the character stood there); the cursor often ends right behind it
    let mut orphan_at: Option<(u32, u32)> = None;
    if c >= 2 && rng.below(100) < 8 {
        let y = rng.range(1, l);
        let x = if rng.bool() { 1 } else { rng.range(1, c - 1) };
        ops.push(Op::Api(Call::CursorPosition(Some(y), Some(x))));
        ops.push(Op::Api(Call::Draw(rng.pick(&WIDE).to_string())));
        ops.push(Op::Api(Call::CursorPosition(Some(y), Some(x))));
        ops.push(Op::Api(Call::DeleteCharacters(Some(1))));
        orphan_at = Some((y, x));
    }
    // cursor placement (boundary biased), possibly at the pending-wrap column
    let y = match rng.below(5) {
        0 => 1,
        1 => l,
        _ => rng.range(1, l),
    };
    if let (Some((oy, ox)), true) = (orphan_at, rng.bool()) {
        ops.push(Op::Api(Call::CursorPosition(Some(oy), Some((ox + rng.below(2) as u32).min(c)))));
    } else if pct(rng, prof.pending_wrap, 22) {
        if c >= 2 && rng.below(4) == 0 {
            // the pending-wrap column reached by a double-width character that ends flush with
            // the right edge (the last cell is then a placeholder, not a glyph)
            ops.push(Op::Api(Call::CursorPosition(Some(y), Some(c - 1))));
            ops.push(Op::Api(Call::Draw(rng.pick(&WIDE).to_string())));
        } else {
            ops.push(Op::Api(Call::CursorPosition(Some(y), Some(c))));
            ops.push(Op::Api(Call::Draw(marker(c - 1, y - 1, c).to_string())));
        }
        // ... and sometimes the cursor is then taken to another row by a vertical move, which keeps
        // the column: the pending-wrap column on a row that the last draw did not touch (possibly
        // one that was never written at all)
        if rng.below(4) == 0 {
            let n = Some(rng.range(1, l));
            ops.push(Op::Api(if rng.bool() { Call::CursorUp(n) } else { Call::CursorDown(n) }));
        }
    } else {
        let x = match rng.below(5) {
            0 => 1,
            1 => c,
            _ => rng.range(1, c),
        };
        ops.push(Op::Api(Call::CursorPosition(Some(y), Some(x))));
    }
    // the embedder has usually consumed the dirty set
    if rng.below(100) < 60 {
        ops.push(Op::ClearDirty);
    }
    ops
}

// ---------------------------------------------------------------------------------------------
// sessions
// ---------------------------------------------------------------------------------------------

fn csi(rng: &mut Rng) -> &'static str {
    if rng.below(100) < 8 {
        "\u{9b}"
    } else {
        "\x1b["
    }
}

fn p2s(p: Option<u32>) -> String {
    match p {
        None => String::new(),
        Some(v) => v.to_string(),
    }
}

/// one unit of terminal traffic
pub fn unit(rng: &mut Rng, c: u32, l: u32) -> String {
    let r = rng.below(1000);
    let i = csi(rng);
    if r < 330 {
        text_run(rng, 12)
    } else if r < 400 {
        // SGR
        let mut v = rendition(rng);
        if rng.below(5) == 0 {
            v.insert(0, 0);
        }
        if rng.below(6) == 0 {
            return format!("{}m", i);
        }
        format!("{}{}m", i, v.iter().map(|x| x.to_string()).collect::<Vec<_>>().join(";"))
    } else if r < 470 {
        format!("{}{};{}{}", i, p2s(param(rng, l)), p2s(param(rng, c)), if rng.bool() { 'H' } else { 'f' })
    } else if r < 560 {
        let f = *rng.pick(&['A', 'B', 'C', 'D', 'E', 'F', 'G', 'd', 'a', 'e']);
        let size = if "ABEFde".contains(f) { l } else { c };
        format!("{}{}{}", i, p2s(param(rng, size)), f)
    } else if r < 620 {
        (*rng.pick(&["\n", "\r", "\r\n", "\x08", "\t", "\x0b", "\x0c", "\x07"])).to_string()
    } else if r < 670 {
        let f = *rng.pick(&['J', 'K']);
        format!("{}{}{}", i, p2s(*rng.pick(&[None, Some(0), Some(1), Some(2), Some(3), Some(4)])), f)
    } else if r < 700 {
        format!("{}{}X", i, p2s(param(rng, c)))
    } else if r < 760 {
        let f = *rng.pick(&['L', 'M', '@', 'P']);
        let size = if "LM".contains(f) { l } else { c };
        format!("{}{}{}", i, p2s(param(rng, size)), f)
    } else if r < 800 {
        (*rng.pick(&["\x1bD", "\x1bM", "\x1bE", "\x1bH", "\x1b7", "\x1b8"])).to_string()
    } else if r < 840 {
        // modes
        let private = rng.below(100) < 70;
        let m: u32 = if private {
            *rng.pick(&[3u32, 5, 6, 7, 25, 1, 12, 1049, 2004])
        } else {
            *rng.pick(&[4u32, 20, 2, 12])
        };
        // DECCOLM is rare: it erases everything
        let m = if private && m == 3 && rng.below(4) != 0 { 7 } else { m };
        format!("{}{}{}{}", i, if private { "?" } else { "" }, m, if rng.bool() { 'h' } else { 'l' })
    } else if r < 870 {
        if rng.below(4) == 0 {
            format!("{}r", i)
        } else {
            format!("{}{};{}r", i, p2s(param(rng, l)), p2s(param(rng, l)))
        }
    } else if r < 890 {
        format!("{}{}g", i, p2s(*rng.pick(&[None, Some(0), Some(3), Some(1)])))
    } else if r < 915 {
        let intro = if rng.below(100) < 10 { "\u{9d}" } else { "\x1b]" };
        let term = *rng.pick(&["\x07", "\u{9c}", "\x1b\\"]);
        format!("{}{};{}{}", intro, rng.below(4), text_run(rng, 8).replace(['\u{7}', '\u{1b}'], ""), term)
    } else if r < 935 {
        format!("\x1b{}{}", rng.pick(&['(', ')']), rng.pick(&['0', 'B', 'U', 'V', 'A']))
    } else if r < 950 {
        (*rng.pick(&["\x0e", "\x0f"])).to_string()
    } else if r < 955 {
        "\x1bc".to_string()
    } else if r < 962 {
        "\x1b#8".to_string()
    } else if r < 972 {
        format!("{}{}c", i, p2s(*rng.pick(&[None, Some(0), Some(1)])))
    } else if r < 985 {
        // long text run: forces wrapping and scrolling
        let mut s = String::new();
        for _ in 0..rng.range(c, 3 * c + 4) {
            s.push((b'a' + rng.below(26) as u8) as char);
        }
        s
    } else {
        // odd but legal forms
        (*rng.pick(&["\x1b%G", "\x1b%@", "\x1b[?25$p", "\x1b[ q", "\x1b[>c", "\x1b[1$r", "\x1b=", "\x1b>"])).to_string()
    }
}

pub fn session(rng: &mut Rng, c: u32, l: u32, units: usize) -> String {
    // one unit in seven is an earlier unit of the same session sent again verbatim: an
    // implementation that remembers "the last X" (a memo, a cache, a sticky flag) is only wrong
    // when the identical request returns after something else changed the state behind it
    let mut s = String::new();
    let mut seen: Vec<String> = Vec::new();
    for _ in 0..units {
        let u = if !seen.is_empty() && rng.below(7) == 0 { rng.pick(&seen).clone() } else { unit(rng, c, l) };
        s.push_str(&u);
        seen.push(u);
    }
    s
}

/// hostile mutation of a character stream
pub fn mutate(rng: &mut Rng, s: &str) -> String {
    let mut v: Vec<char> = s.chars().collect();
    let n = 1 + rng.usize(4);
    for _ in 0..n {
        if v.is_empty() {
            v.push('\x1b');
            continue;
        }
        let i = rng.usize(v.len());
        match rng.below(9) {
            0 => {
                v.truncate(i);
            }
            1 => {
                let j = (i + rng.usize(8)).min(v.len());
                let seg: Vec<char> = v[i..j].to_vec();
                for (k, ch) in seg.into_iter().enumerate() {
                    v.insert(i + k, ch);
                }
            }
            2 => {
                v[i] = if rng.below(4) == 0 { uchar(rng) } else { char::from_u32(rng.below(0x100) as u32).unwrap_or('?') };
            }
            3 => {
                v.remove(i);
            }
            4 => {
                v.insert(i, *rng.pick(&['\x1b', '\x18', '\x1a', '\0', '\x7f', '\u{9b}', '\u{9d}', '\u{9c}', '\u{90}', '\u{85}']));
            }
            5 => {
                v.insert(i, *rng.pick(&['[', ']', '?', ';', '$', '#', '%', '(', ')', '\\', '>', ' ']));
            }
            6 => {
                // long digit run
                let d: Vec<char> = (0..rng.range(1, 40)).map(|_| (b'0' + rng.below(10) as u8) as char).collect();
                for (k, ch) in d.into_iter().enumerate() {
                    v.insert(i + k, ch);
                }
            }
            7 => {
                // unterminated string introducer
                v.insert(i, ']');
                v.insert(i, '\x1b');
            }
            _ => {
                let j = rng.usize(v.len());
                v.swap(i, j);
            }
        }
    }
    v.into_iter().collect()
}

/// hostile byte stream: session bytes with invalid / split / overlong UTF-8 injected
pub fn mutate_bytes(rng: &mut Rng, s: &str) -> Vec<u8> {
    let mut b = s.as_bytes().to_vec();
    let n = 1 + rng.usize(4);
    for _ in 0..n {
        let i = if b.is_empty() { 0 } else { rng.usize(b.len()) };
        match rng.below(7) {
            0 => {
                let bad: &[u8] = *rng.pick(&[
                    &[0xff][..],
                    &[0xc0, 0x80],
                    &[0xe0, 0x80, 0x80],
                    &[0xed, 0xa0, 0x80],
                    &[0xf4, 0x90, 0x80, 0x80],
                    &[0xf8, 0x88, 0x80, 0x80, 0x80],
                    &[0x80],
                    &[0xbf, 0xbf],
                    &[0xe2, 0x82],
                    &[0xf0, 0x9f, 0x98],
                    &[0xef, 0xbb, 0xbf],
                    &[0xc2],
                ]);
                for (k, x) in bad.iter().enumerate() {
                    b.insert(i + k, *x);
                }
            }
            1 => {
                if !b.is_empty() {
                    b[i] = rng.below(256) as u8;
                }
            }
            2 => {
                if !b.is_empty() {
                    b.remove(i);
                }
            }
            3 => b.truncate(i),
            4 => b.insert(i, 0x1b),
            5 => b.insert(i, *rng.pick(&[0x9bu8, 0x9d, 0x9c, 0x18, 0x1a, 0x00, 0x7f])),
            _ => {
                for k in 0..rng.usize(6) {
                    b.insert(i + k, rng.below(256) as u8);
                }
            }
        }
    }
    b
}

// ---------------------------------------------------------------------------------------------
// chunkers
// ---------------------------------------------------------------------------------------------

/// split a char vector at the given sorted cut positions
pub fn cut_chars(v: &[char], cuts: &[usize]) -> Vec<String> {
    let mut out = Vec::new();
    let mut prev = 0;
    for &c in cuts {
        out.push(v[prev..c].iter().collect());
        prev = c;
    }
    out.push(v[prev..].iter().collect());
    out
}

pub fn cut_bytes(v: &[u8], cuts: &[usize]) -> Vec<Vec<u8>> {
    let mut out = Vec::new();
    let mut prev = 0;
    for &c in cuts {
        out.push(v[prev..c].to_vec());
        prev = c;
    }
    out.push(v[prev..].to_vec());
    out
}

/// k random sorted cut positions in 0..=n (duplicates allowed => empty chunks)
pub fn random_cuts(rng: &mut Rng, n: usize, k: usize) -> Vec<usize> {
    let mut c: Vec<usize> = (0..k).map(|_| rng.usize(n + 1)).collect();
    c.sort();
    c
}

/// `s` = one control sequence (`ESC [` or U+009B ... final) possibly followed by text: the same
/// sequence with `pad` zeros in front of every parameter (leading zeros are not significant).
/// None if `s` is not of that shape.
pub fn pad_params(s: &str, pad: usize) -> Option<String> {
    let rest = s.strip_prefix("\x1b[").or_else(|| s.strip_prefix('\u{9b}'))?;
    let intro = &s[..s.len() - rest.len()];
    let mut out = String::from(intro);
    let mut in_digits = false;
    let mut done = false;
    let mut padded = false;
    for ch in rest.chars() {
        if !done {
            if ch.is_ascii_digit() {
                if !in_digits {
                    out.push_str(&"0".repeat(pad));
                    padded = true;
                }
                in_digits = true;
            } else {
                in_digits = false;
                if ('@'..='~').contains(&ch) || (ch as u32) < 0x20 {
                    done = true;
                }
            }
        }
        out.push(ch);
    }
    if padded {
        Some(out)
    } else {
        None
    }
}

/// the SGR list that makes the cursor rendition equal to `a` (from any rendition)
pub fn sgr_of(a: &crate::snapshot::Attr) -> Vec<u32> {
    use crate::snapshot::{Col, BLINK, BOLD, ITALICS, REVERSE, STRIKE, UNDERSCORE};
    let mut v = vec![0u32];
    for (bit, code) in [(BOLD, 1u32), (ITALICS, 3), (UNDERSCORE, 4), (BLINK, 5), (STRIKE, 9)] {
        if a.flags & bit != 0 {
            v.push(code);
        }
    }
    // SGR 0 gives the screen's default (reverse under DECSCNM): state reverse explicitly
    v.push(if a.flags & REVERSE != 0 { 7 } else { 27 });
    for (col, base, bright, ext) in [(&a.fg, 30u32, 90u32, 38u32), (&a.bg, 40, 100, 48)] {
        match col {
            Col::Named(i) if *i < 8 => v.push(base + *i as u32),
            Col::Named(i) => v.push(bright + (*i as u32 - 8)),
            Col::Rgb(x) => v.extend([ext, 2, (x >> 16) & 0xff, (x >> 8) & 0xff, x & 0xff]),
            _ => {}
        }
    }
    v
}

/// One or two operations that change, by a route of their own, state that other operations
/// may have remembered (used between two identical requests: "X, perturbation, X again").
pub fn perturbation(rng: &mut Rng, c: u32, l: u32) -> Vec<crate::sys::Op> {
    use crate::sys::Op;
    use Call::*;
    let mut v = Vec::new();
    for _ in 0..1 + rng.below(2) {
        v.push(match rng.below(16) {
            0 => Op::Api(RestoreCursor),
            1 => Op::Api(SaveCursor),
            2 => Op::Api(Reset),
            3 => Op::Feed("\x1bc".into()),
            4 => Op::Api(Sgr(rendition(rng))),
            5 => Op::Api(CursorPosition(param(rng, l), param(rng, c))),
            6 => Op::Api(SetMode(vec![*rng.pick(&[3u32, 5, 6, 7, 25])], true)),
            7 => Op::Api(ResetMode(vec![*rng.pick(&[3u32, 5, 6, 7, 25])], true)),
            8 => Op::Api(if rng.bool() { SetMode(vec![*rng.pick(&[4u32, 20])], false) } else { ResetMode(vec![*rng.pick(&[4u32, 20])], false) }),
            9 => Op::Api(Resize(Some(rng.range(1, l + 3)), Some(rng.range(1, c + 3)))),
            10 => Op::Api(Display),
            11 => Op::Api(Tab),
            12 => Op::Api(Draw(marker(rng.below(40) as u32, rng.below(9) as u32, c).to_string())),
            13 => Op::Api(if rng.bool() { ShiftOut } else { ShiftIn }),
            14 => Op::Api(SetMargins(param(rng, l), param(rng, l))),
            _ => Op::Feed((*rng.pick(&["\x18", "\x1b[?7$p", "\x1b[1;2\x1a", "\x1b]9;zz\x07", "\x1b%G", "\r\n"])).into()),
        });
    }
    v
}

/// What only the API can pass in one draw() call: a string mixing printable characters with C0 /
/// C1 / DEL / soft hyphen (zero width as they are, glyphs under CP437 / VAX42), composable pairs,
/// conjoining jamo (L V T next to each other), singletons, sequences narrower as a string than
/// character by character, sampled Unicode
pub fn mixed_api_string(rng: &mut Rng) -> String {
    let n = 2 + rng.usize(7);
    let mut t = String::new();
    for _ in 0..n {
        match rng.below(8) {
            0 => t.push(*rng.pick(&['\u{ad}', '\u{7f}', '\u{1}', '\u{18}', '\u{85}', '\u{9b}', '\u{0}', '\u{1f}'])),
            1 => t.push_str(*rng.pick(&["a\u{301}", "e\u{301}", "\u{212b}", "\u{1112}\u{1161}\u{11ab}", "\u{1100}\u{1161}", "\u{1161}", "\u{37e}", "A\u{30a}", "\u{d55c}\u{11ab}", "\u{1611e}\u{1611e}"])),
            2 => t.push(uchar(rng)),
            3 => t.push_str(*rng.pick(&SEQUENCES[..])),
            4 => t.push(*rng.pick(&COMBINING)),
            _ => t.push((b'a' + rng.below(26) as u8) as char),
        }
    }
    t
}

/// every listener call with boundary-biased arguments (API workloads)
pub fn api_call(rng: &mut Rng, c: u32, l: u32) -> Call {
    use Call::*;
    let pc = |rng: &mut Rng| param(rng, c);
    let pl = |rng: &mut Rng| param(rng, l);
    let any = |rng: &mut Rng| match rng.below(4) {
        0 => None,
        1 => Some(rng.range(0, 9999)),
        _ => Some(rng.range(0, 6)),
    };
    match rng.below(44) {
        0 => AlignmentDisplay,
        1 => DefineCharset((*rng.pick(&["B", "0", "U", "V", "A", "K"])).into(), (*rng.pick(&["(", ")", "*"])).into()),
        2 => {
            if rng.below(4) == 0 {
                Reset
            } else {
                Bell
            }
        }
        3 => Index,
        4 => Linefeed,
        5 => ReverseIndex,
        6 => SetTabStop,
        7 => SaveCursor,
        8 => RestoreCursor,
        9 => ShiftOut,
        10 => ShiftIn,
        11 => Backspace,
        12 => Tab,
        13 => CarriageReturn,
        14 | 15 | 16 => Draw(text_run(rng, 10)),
        17 => Draw(mixed_api_string(rng)),
        18 => InsertCharacters(pc(rng)),
        19 => CursorUp(pl(rng)),
        20 => CursorDown(pl(rng)),
        21 => CursorForward(pc(rng)),
        22 => CursorBack(pc(rng)),
        23 => CursorDown1(pl(rng)),
        24 => CursorUp1(pl(rng)),
        25 => CursorToColumn(pc(rng)),
        26 => CursorPosition(pl(rng), pc(rng)),
        27 => EraseInDisplay(any(rng)),
        28 => EraseInLine(any(rng)),
        29 => InsertLines(pl(rng)),
        30 => DeleteLines(pl(rng)),
        31 => DeleteCharacters(pc(rng)),
        32 => EraseCharacters(pc(rng)),
        33 => ReportDeviceAttributes(any(rng)),
        34 => CursorToLine(pl(rng)),
        35 => ClearTabStop(any(rng)),
        36 | 37 => {
            let private = rng.bool();
            let n = 1 + rng.usize(2);
            let v: Vec<u32> = (0..n)
                .map(|_| {
                    if rng.below(10) < 7 {
                        *rng.pick(&[3u32, 4, 5, 6, 7, 20, 25, 96, 160, 192, 224, 800])
                    } else {
                        rng.range(0, 9999)
                    }
                })
                .collect();
            if rng.bool() {
                SetMode(v, private)
            } else {
                ResetMode(v, private)
            }
        }
        38 | 39 => {
            let mut v = rendition(rng);
            if rng.below(6) == 0 {
                v.push(rng.range(0, 9999));
            }
            Sgr(v)
        }
        40 => SetTitle(text_run(rng, 5)),
        41 => SetIconName(text_run(rng, 5)),
        42 => SetMargins(pl(rng), pl(rng)),
        _ => Display,
    }
}
