//! mtverif - runtime monitors for memterm (see /verif/DESIGN.md)

mod call;
mod checks;
mod core;
mod engine;
mod gen;
mod golden;
mod refparser;
mod refsem;
mod rng;
mod runner;
mod snapshot;
mod sys;

use std::path::PathBuf;
use std::time::Duration;

use crate::core::Tier;

fn arg_val(args: &[String], name: &str) -> Option<String> {
    args.iter().position(|a| a == name).and_then(|i| args.get(i + 1).cloned())
}

fn main() {
    let args: Vec<String> = std::env::args().collect();
    if args.len() < 2 {
        eprintln!("usage: mtverif run <ID> [--tier quick|thorough] [--seed N] [--jobs N] [--budget secs]\n       mtverif worker <ID> ...\n       mtverif replay <file>\n       mtverif list");
        std::process::exit(2);
    }
    let tier = match arg_val(&args, "--tier").or_else(|| std::env::var("VERIF_TIER").ok()).as_deref() {
        Some("thorough") => Tier::Thorough,
        _ => Tier::Quick,
    };
    let seed: u64 = arg_val(&args, "--seed")
        .or_else(|| std::env::var("VERIF_SEED").ok())
        .and_then(|s| s.parse().ok())
        .unwrap_or(1);
    let budget = arg_val(&args, "--budget")
        .and_then(|s| s.parse::<u64>().ok())
        .map(Duration::from_secs)
        .unwrap_or_else(|| runner::default_budget(tier));
    let code = match args[1].as_str() {
        "list" => {
            for c in checks::all() {
                println!("{}", c.id());
            }
            0
        }
        "run" => {
            let id = args.get(2).cloned().unwrap_or_default();
            let jobs: u32 = arg_val(&args, "--jobs")
                .or_else(|| std::env::var("VERIF_JOBS").ok())
                .and_then(|s| s.parse().ok())
                .unwrap_or(16);
            runner::run_main(&runner::RunOpts { id, tier, seed, jobs, budget })
        }
        "worker" => {
            let id = args.get(2).cloned().unwrap_or_default();
            let shard: u32 = arg_val(&args, "--shard").and_then(|s| s.parse().ok()).unwrap_or(0);
            let nshards: u32 = arg_val(&args, "--nshards").and_then(|s| s.parse().ok()).unwrap_or(1);
            let out = PathBuf::from(arg_val(&args, "--out").unwrap_or_else(|| "/dev/null".into()));
            let only = arg_val(&args, "--only-group").and_then(|s| s.parse().ok());
            runner::worker_main(&id, tier, seed, shard, nshards, budget, &out, only)
        }
        "replay" => runner::replay_main(&PathBuf::from(args.get(2).cloned().unwrap_or_default())),
        other => {
            eprintln!("unknown subcommand {}", other);
            2
        }
    };
    std::process::exit(code);
}
