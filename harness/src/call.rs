//! Listener-level calls: the vocabulary of the event logs and of the operation language.

use memterm::parser_listener::ParserListener;
use serde::{Deserialize, Serialize};

#[derive(Clone, Debug, PartialEq, Eq, Hash, Serialize, Deserialize)]
pub enum Call {
    AlignmentDisplay,
    DefineCharset(String, String),
    Reset,
    Index,
    Linefeed,
    ReverseIndex,
    SetTabStop,
    SaveCursor,
    RestoreCursor,
    ShiftOut,
    ShiftIn,
    Bell,
    Backspace,
    Tab,
    CarriageReturn,
    Draw(String),
    InsertCharacters(Option<u32>),
    CursorUp(Option<u32>),
    CursorDown(Option<u32>),
    CursorForward(Option<u32>),
    CursorBack(Option<u32>),
    CursorDown1(Option<u32>),
    CursorUp1(Option<u32>),
    CursorToColumn(Option<u32>),
    CursorPosition(Option<u32>, Option<u32>),
    EraseInDisplay(Option<u32>),
    EraseInLine(Option<u32>),
    InsertLines(Option<u32>),
    DeleteLines(Option<u32>),
    DeleteCharacters(Option<u32>),
    EraseCharacters(Option<u32>),
    ReportDeviceAttributes(Option<u32>),
    CursorToLine(Option<u32>),
    ClearTabStop(Option<u32>),
    SetMode(Vec<u32>, bool),
    ResetMode(Vec<u32>, bool),
    Sgr(Vec<u32>),
    SetTitle(String),
    SetIconName(String),
    SetMargins(Option<u32>, Option<u32>),
    /// Screen::resize(lines, columns) - not a listener method, only reachable through the API
    Resize(Option<u32>, Option<u32>),
    /// Screen::display()
    Display,
}

use Call::*;

impl Call {
    /// the same single-count call with another count (None for calls of another shape)
    pub fn with_count(&self, n: u32) -> Option<Call> {
        let p = Some(n);
        Some(match self {
            InsertCharacters(_) => InsertCharacters(p),
            CursorUp(_) => CursorUp(p),
            CursorDown(_) => CursorDown(p),
            CursorForward(_) => CursorForward(p),
            CursorBack(_) => CursorBack(p),
            CursorDown1(_) => CursorDown1(p),
            CursorUp1(_) => CursorUp1(p),
            CursorToColumn(_) => CursorToColumn(p),
            InsertLines(_) => InsertLines(p),
            DeleteLines(_) => DeleteLines(p),
            DeleteCharacters(_) => DeleteCharacters(p),
            EraseCharacters(_) => EraseCharacters(p),
            CursorToLine(_) => CursorToLine(p),
            _ => return None,
        })
    }
    pub fn kind(&self) -> &'static str {
        match self {
            AlignmentDisplay => "alignment_display",
            DefineCharset(..) => "define_charset",
            Reset => "reset",
            Index => "index",
            Linefeed => "linefeed",
            ReverseIndex => "reverse_index",
            SetTabStop => "set_tab_stop",
            SaveCursor => "save_cursor",
            RestoreCursor => "restore_cursor",
            ShiftOut => "shift_out",
            ShiftIn => "shift_in",
            Bell => "bell",
            Backspace => "backspace",
            Tab => "tab",
            CarriageReturn => "cariage_return",
            Draw(_) => "draw",
            InsertCharacters(_) => "insert_characters",
            CursorUp(_) => "cursor_up",
            CursorDown(_) => "cursor_down",
            CursorForward(_) => "cursor_forward",
            CursorBack(_) => "cursor_back",
            CursorDown1(_) => "cursor_down1",
            CursorUp1(_) => "cursor_up1",
            CursorToColumn(_) => "cursor_to_column",
            CursorPosition(..) => "cursor_position",
            EraseInDisplay(_) => "erase_in_display",
            EraseInLine(_) => "erase_in_line",
            InsertLines(_) => "insert_lines",
            DeleteLines(_) => "delete_lines",
            DeleteCharacters(_) => "delete_characters",
            EraseCharacters(_) => "erase_characters",
            ReportDeviceAttributes(_) => "report_device_attributes",
            CursorToLine(_) => "cursor_to_line",
            ClearTabStop(_) => "clear_tab_stop",
            SetMode(..) => "set_mode",
            ResetMode(..) => "reset_mode",
            Sgr(_) => "select_graphic_rendition",
            SetTitle(_) => "set_title",
            SetIconName(_) => "set_icon_name",
            SetMargins(..) => "set_margins",
            Resize(..) => "resize",
            Display => "display",
        }
    }

    /// the property whose statement defines the effect of this call (per-step attribution)
    pub fn owner(&self) -> &'static str {
        match self {
            Draw(_) => "C04",
            CursorUp(_) | CursorDown(_) | CursorForward(_) | CursorBack(_) | CursorDown1(_) | CursorUp1(_)
            | CursorToColumn(_) | CursorPosition(..) | CursorToLine(_) | Backspace | CarriageReturn => "C05",
            Index | Linefeed | ReverseIndex | InsertLines(_) | DeleteLines(_) | SetMargins(..) => "C06",
            EraseInDisplay(_) | EraseInLine(_) | EraseCharacters(_) => "C07",
            Sgr(_) => "C08",
            Display => "C10",
            SetMode(..) | ResetMode(..) => "C12",
            InsertCharacters(_) | DeleteCharacters(_) => "C13",
            SaveCursor | RestoreCursor => "C14",
            Reset => "C15",
            Resize(..) => "C16",
            Tab | SetTabStop | ClearTabStop(_) => "C18",
            SetTitle(_) | SetIconName(_) => "C19",
            ShiftIn | ShiftOut | DefineCharset(..) => "C20",
            AlignmentDisplay | Bell | ReportDeviceAttributes(_) => "-",
        }
    }

    /// Apply through the `ParserListener` interface (Resize/Display need a Screen: see Tap).
    pub fn apply<L: ParserListener>(&self, l: &mut L) {
        match self {
            AlignmentDisplay => l.alignment_display(),
            DefineCharset(c, m) => l.define_charset(c, m),
            Reset => l.reset(),
            Index => l.index(),
            Linefeed => l.linefeed(),
            ReverseIndex => l.reverse_index(),
            SetTabStop => l.set_tab_stop(),
            SaveCursor => l.save_cursor(),
            RestoreCursor => l.restore_cursor(),
            ShiftOut => l.shift_out(),
            ShiftIn => l.shift_in(),
            Bell => l.bell(),
            Backspace => l.backspace(),
            Tab => l.tab(),
            CarriageReturn => l.cariage_return(),
            Draw(s) => l.draw(s),
            InsertCharacters(n) => l.insert_characters(*n),
            CursorUp(n) => l.cursor_up(*n),
            CursorDown(n) => l.cursor_down(*n),
            CursorForward(n) => l.cursor_forward(*n),
            CursorBack(n) => l.cursor_back(*n),
            CursorDown1(n) => l.cursor_down1(*n),
            CursorUp1(n) => l.cursor_up1(*n),
            CursorToColumn(n) => l.cursor_to_column(*n),
            CursorPosition(a, b) => l.cursor_position(*a, *b),
            EraseInDisplay(n) => l.erase_in_display(*n, None),
            EraseInLine(n) => l.erase_in_line(*n, None),
            InsertLines(n) => l.insert_lines(*n),
            DeleteLines(n) => l.delete_lines(*n),
            DeleteCharacters(n) => l.delete_characters(*n),
            EraseCharacters(n) => l.erase_characters(*n),
            ReportDeviceAttributes(n) => l.report_device_attributes(*n, None),
            CursorToLine(n) => l.cursor_to_line(*n),
            ClearTabStop(n) => l.clear_tab_stop(*n),
            SetMode(v, p) => l.set_mode(v, *p),
            ResetMode(v, p) => l.reset_mode(v, *p),
            Sgr(v) => l.select_graphic_rendition(v),
            SetTitle(s) => l.set_title(s),
            SetIconName(s) => l.set_icon_name(s),
            SetMargins(a, b) => l.set_margins(*a, *b),
            Resize(..) => {}
            Display => {
                let _ = l.display();
            }
        }
    }

    /// An escape sequence (7-bit introducers) that makes the documented recogniser deliver this
    /// call, if there is one.  `None` for calls that only exist on the API.
    pub fn to_seq(&self) -> Option<String> {
        fn p1(n: &Option<u32>, f: char) -> String {
            match n {
                None => format!("\x1b[{}", f),
                Some(v) => format!("\x1b[{}{}", v, f),
            }
        }
        fn list(v: &[u32]) -> String {
            v.iter().map(|x| x.to_string()).collect::<Vec<_>>().join(";")
        }
        Some(match self {
            AlignmentDisplay => "\x1b#8".into(),
            DefineCharset(c, m) => format!("\x1b{}{}", m, c),
            Reset => "\x1bc".into(),
            Index => "\x1bD".into(),
            Linefeed => "\n".into(),
            ReverseIndex => "\x1bM".into(),
            SetTabStop => "\x1bH".into(),
            SaveCursor => "\x1b7".into(),
            RestoreCursor => "\x1b8".into(),
            ShiftOut => "\x0e".into(),
            ShiftIn => "\x0f".into(),
            Bell => "\x07".into(),
            Backspace => "\x08".into(),
            Tab => "\t".into(),
            CarriageReturn => "\r".into(),
            Draw(s) => {
                if s.chars().any(|c| (c as u32) < 0x20 || c == '\u{9b}' || c == '\u{9d}') {
                    return None;
                }
                s.clone()
            }
            InsertCharacters(n) => p1(n, '@'),
            CursorUp(n) => p1(n, 'A'),
            CursorDown(n) => p1(n, 'B'),
            CursorForward(n) => p1(n, 'C'),
            CursorBack(n) => p1(n, 'D'),
            CursorDown1(n) => p1(n, 'E'),
            CursorUp1(n) => p1(n, 'F'),
            CursorToColumn(n) => p1(n, 'G'),
            CursorPosition(a, b) => match (a, b) {
                (None, None) => "\x1b[H".into(),
                (Some(a), None) => format!("\x1b[{}H", a),
                (None, Some(b)) => format!("\x1b[;{}H", b),
                (Some(a), Some(b)) => format!("\x1b[{};{}H", a, b),
            },
            EraseInDisplay(n) => p1(n, 'J'),
            EraseInLine(n) => p1(n, 'K'),
            InsertLines(n) => p1(n, 'L'),
            DeleteLines(n) => p1(n, 'M'),
            DeleteCharacters(n) => p1(n, 'P'),
            EraseCharacters(n) => p1(n, 'X'),
            ReportDeviceAttributes(n) => p1(n, 'c'),
            CursorToLine(n) => p1(n, 'd'),
            ClearTabStop(n) => p1(n, 'g'),
            SetMode(v, p) => format!("\x1b[{}{}h", if *p { "?" } else { "" }, list(v)),
            ResetMode(v, p) => format!("\x1b[{}{}l", if *p { "?" } else { "" }, list(v)),
            Sgr(v) => format!("\x1b[{}m", list(v)),
            SetTitle(s) => format!("\x1b]2;{}\x07", s),
            SetIconName(s) => format!("\x1b]1;{}\x07", s),
            SetMargins(a, b) => match (a, b) {
                (None, None) => "\x1b[r".into(),
                (Some(a), None) => format!("\x1b[{}r", a),
                (None, Some(b)) => format!("\x1b[;{}r", b),
                (Some(a), Some(b)) => format!("\x1b[{};{}r", a, b),
            },
            Resize(..) | Display => return None,
        })
    }

    /// coarse class of the first numeric parameter, relative to a size (for buckets)
    pub fn param_class(&self, lines: u32, columns: u32) -> String {
        fn cls(n: &Option<u32>, size: u32) -> &'static str {
            match n {
                None => "abs",
                Some(0) => "0",
                Some(1) => "1",
                Some(v) if *v < size => "mid",
                Some(v) if *v == size => "eq",
                Some(v) if *v == size + 1 => "eq+1",
                Some(9999) => "max",
                Some(_) => "big",
            }
        }
        match self {
            InsertCharacters(n) | CursorForward(n) | CursorBack(n) | CursorToColumn(n) | DeleteCharacters(n)
            | EraseCharacters(n) => cls(n, columns).to_string(),
            CursorUp(n) | CursorDown(n) | CursorDown1(n) | CursorUp1(n) | InsertLines(n) | DeleteLines(n)
            | CursorToLine(n) => cls(n, lines).to_string(),
            CursorPosition(a, b) => format!("{},{}", cls(a, lines), cls(b, columns)),
            SetMargins(a, b) => format!("{},{}", cls(a, lines), cls(b, lines)),
            EraseInDisplay(n) | EraseInLine(n) | ClearTabStop(n) | ReportDeviceAttributes(n) => match n {
                None => "abs".into(),
                Some(v) if *v <= 5 => v.to_string(),
                Some(_) => "other".into(),
            },
            Resize(l, c) => {
                let f = |n: &Option<u32>, cur: u32| match n {
                    None => "abs",
                    Some(v) if *v < cur => "shrink",
                    Some(v) if *v == cur => "same",
                    Some(_) => "grow",
                };
                format!("{},{}", f(l, lines), f(c, columns))
            }
            SetMode(v, p) | ResetMode(v, p) => {
                let known = |m: &u32| -> String {
                    let code = if *p { *m } else { *m };
                    match (p, code) {
                        (true, 3) | (true, 5) | (true, 6) | (true, 7) | (true, 25) => format!("?{}", code),
                        (false, 4) | (false, 20) => format!("{}", code),
                        (false, 96) | (false, 160) | (false, 192) | (false, 224) | (false, 800) => {
                            format!("shifted{}", code)
                        }
                        _ => "other".into(),
                    }
                };
                let mut ks: Vec<String> = v.iter().map(known).collect();
                ks.dedup();
                format!("[{}]", ks.join(","))
            }
            Sgr(v) => match v.len() {
                0 => "empty".into(),
                1 => "single".into(),
                _ => "list".into(),
            },
            Draw(s) => {
                use unicode_width::UnicodeWidthChar;
                let mut wide = false;
                let mut zero = false;
                let mut comb = false;
                for c in s.chars() {
                    match c.width().unwrap_or(0) {
                        2 => wide = true,
                        0 => {
                            if unicode_normalization::char::is_combining_mark(c) {
                                comb = true
                            } else {
                                zero = true
                            }
                        }
                        _ => {}
                    }
                }
                format!(
                    "n{}{}{}{}",
                    s.chars().count().min(3),
                    if wide { "w" } else { "" },
                    if comb { "c" } else { "" },
                    if zero { "z" } else { "" }
                )
            }
            _ => "-".into(),
        }
    }
}

/// A recording listener without a screen (C03 / C11 / C19 event logs).  It does NOT override the
/// three *_dispatch default methods, so memterm's dispatch tables are inside the observed system.
#[derive(Default)]
pub struct Rec {
    pub ev: Vec<Call>,
}

impl Rec {
    pub fn new() -> Rec {
        Rec { ev: Vec::new() }
    }
}

impl ParserListener for Rec {
    fn alignment_display(&mut self) {
        self.ev.push(AlignmentDisplay)
    }
    fn define_charset(&mut self, code: &str, mode: &str) {
        self.ev.push(DefineCharset(code.into(), mode.into()))
    }
    fn reset(&mut self) {
        self.ev.push(Reset)
    }
    fn index(&mut self) {
        self.ev.push(Index)
    }
    fn linefeed(&mut self) {
        self.ev.push(Linefeed)
    }
    fn reverse_index(&mut self) {
        self.ev.push(ReverseIndex)
    }
    fn set_tab_stop(&mut self) {
        self.ev.push(SetTabStop)
    }
    fn save_cursor(&mut self) {
        self.ev.push(SaveCursor)
    }
    fn restore_cursor(&mut self) {
        self.ev.push(RestoreCursor)
    }
    fn shift_out(&mut self) {
        self.ev.push(ShiftOut)
    }
    fn shift_in(&mut self) {
        self.ev.push(ShiftIn)
    }
    fn bell(&mut self) {
        self.ev.push(Bell)
    }
    fn backspace(&mut self) {
        self.ev.push(Backspace)
    }
    fn tab(&mut self) {
        self.ev.push(Tab)
    }
    fn cariage_return(&mut self) {
        self.ev.push(CarriageReturn)
    }
    fn draw(&mut self, input: &str) {
        if let Some(Draw(s)) = self.ev.last_mut() {
            s.push_str(input);
        } else {
            self.ev.push(Draw(input.into()))
        }
    }
    fn insert_characters(&mut self, count: Option<u32>) {
        self.ev.push(InsertCharacters(count))
    }
    fn cursor_up(&mut self, count: Option<u32>) {
        self.ev.push(CursorUp(count))
    }
    fn cursor_down(&mut self, count: Option<u32>) {
        self.ev.push(CursorDown(count))
    }
    fn cursor_forward(&mut self, count: Option<u32>) {
        self.ev.push(CursorForward(count))
    }
    fn cursor_back(&mut self, count: Option<u32>) {
        self.ev.push(CursorBack(count))
    }
    fn cursor_down1(&mut self, count: Option<u32>) {
        self.ev.push(CursorDown1(count))
    }
    fn cursor_up1(&mut self, count: Option<u32>) {
        self.ev.push(CursorUp1(count))
    }
    fn cursor_to_column(&mut self, character: Option<u32>) {
        self.ev.push(CursorToColumn(character))
    }
    fn cursor_position(&mut self, line: Option<u32>, character: Option<u32>) {
        self.ev.push(CursorPosition(line, character))
    }
    fn erase_in_display(&mut self, how: Option<u32>, _private: Option<bool>) {
        self.ev.push(EraseInDisplay(how))
    }
    fn erase_in_line(&mut self, how: Option<u32>, _private: Option<bool>) {
        self.ev.push(EraseInLine(how))
    }
    fn insert_lines(&mut self, count: Option<u32>) {
        self.ev.push(InsertLines(count))
    }
    fn delete_lines(&mut self, count: Option<u32>) {
        self.ev.push(DeleteLines(count))
    }
    fn delete_characters(&mut self, count: Option<u32>) {
        self.ev.push(DeleteCharacters(count))
    }
    fn erase_characters(&mut self, count: Option<u32>) {
        self.ev.push(EraseCharacters(count))
    }
    fn report_device_attributes(&mut self, mode: Option<u32>, _private: Option<bool>) {
        self.ev.push(ReportDeviceAttributes(mode))
    }
    fn cursor_to_line(&mut self, line: Option<u32>) {
        self.ev.push(CursorToLine(line))
    }
    fn clear_tab_stop(&mut self, how: Option<u32>) {
        self.ev.push(ClearTabStop(how))
    }
    fn set_mode(&mut self, modes: &[u32], is_private: bool) {
        self.ev.push(SetMode(modes.to_vec(), is_private))
    }
    fn reset_mode(&mut self, modes: &[u32], is_private: bool) {
        self.ev.push(ResetMode(modes.to_vec(), is_private))
    }
    fn select_graphic_rendition(&mut self, modes: &[u32]) {
        self.ev.push(Sgr(modes.to_vec()))
    }
    fn set_title(&mut self, title: &str) {
        self.ev.push(SetTitle(title.into()))
    }
    fn set_icon_name(&mut self, icon_name: &str) {
        self.ev.push(SetIconName(icon_name.into()))
    }
    fn set_margins(&mut self, top: Option<u32>, bottom: Option<u32>) {
        self.ev.push(SetMargins(top, bottom))
    }
    fn display(&mut self) -> Vec<String> {
        Vec::new()
    }
}
