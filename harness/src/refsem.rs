//! Reference semantics (DESIGN §3.4): for every listener-level call a pure function from the
//! implementation's own pre-snapshot to the set of acceptable post-snapshots, written from the
//! property statements on a dense grid.  Shares no code with memterm.
//!
//! `expect()` returns a list of alternatives (`Exp`); each alternative is a concrete expected
//! snapshot plus local leniencies for the corners where the statements are silent.

use std::collections::BTreeSet;

use unicode_normalization::char::is_combining_mark;
use unicode_width::UnicodeWidthChar;

use crate::call::Call;
use crate::golden::palette256;
use crate::snapshot::*;

// mode numbers as documented (DEC private numbers are stored shifted left by 5)
pub const IRM: u32 = 4;
pub const LNM: u32 = 20;
pub const DECCOLM: u32 = 3 << 5;
pub const DECSCNM: u32 = 5 << 5;
pub const DECOM: u32 = 6 << 5;
pub const DECAWM: u32 = 7 << 5;
pub const DECTCEM: u32 = 25 << 5;

#[derive(Clone, Debug)]
pub enum CellAlt {
    Any,
    Also(Vec<Cell>),
}

#[derive(Clone, Debug)]
pub struct Exp {
    pub s: Snap,
    /// nothing is required of the post-state (statement silent for this whole step)
    pub any_all: bool,
    pub cell_alt: Vec<((usize, usize), CellAlt)>,
    /// every cell may alternatively be one of these (DECCOLM erase: cursor or default rendition)
    pub all_cells_also: Vec<Cell>,
    /// ... but all cells must then show the same one ("erases the screen" with one rendition)
    pub all_cells_uniform: bool,
    pub cx_also: Vec<u32>,
    pub cy_also: Vec<u32>,
    /// the cursor row must be the home row of the POST state's own region / origin mode (where the
    /// margins themselves are lenient, the home row must still agree with the margins that came out)
    pub home_consistent: bool,
    /// cursor only required to be inside the screen (resize)
    pub cursor_inside: bool,
    pub margins_also: Vec<Option<(u32, u32)>>,
    /// tab stops are compared only below this column
    pub tab_below: u32,
    pub saved_columns_any: bool,
    /// Some(set): dirty must equal exactly this; None: dirty is C17's business
    pub dirty_exact: Option<BTreeSet<u32>>,
    /// every row of the post screen must be dirty
    pub dirty_all: bool,
    /// a lenient corner was taken somewhere (counted in evidence)
    pub lenient: bool,
    /// the position after this step is unspecified: later characters of the same string are not judged
    pub unknown_after: bool,
}

impl Exp {
    pub fn new(s: Snap) -> Exp {
        // tab stops are compared exactly, also beyond the right edge: only HTS/TBC/RIS may edit
        // them, so a stop must survive a narrowing of the screen
        let tab_below = u32::MAX;
        Exp {
            s,
            any_all: false,
            cell_alt: Vec::new(),
            all_cells_also: Vec::new(),
            all_cells_uniform: false,
            cx_also: Vec::new(),
            cy_also: Vec::new(),
            home_consistent: false,
            cursor_inside: false,
            margins_also: Vec::new(),
            tab_below,
            saved_columns_any: false,
            dirty_exact: None,
            dirty_all: false,
            lenient: false,
            unknown_after: false,
        }
    }
    fn alt(&mut self, y: usize, x: usize, a: CellAlt) {
        self.lenient = true;
        self.cell_alt.push(((y, x), a));
    }
}

#[derive(Clone, Debug, PartialEq, Eq)]
pub struct Mismatch {
    /// generic component name: geometry cursor rendition hidden modes margins tabstops title icon
    /// charset saved saved_columns cell dirty
    pub clause: &'static str,
    pub detail: String,
}

fn nz(n: &Option<u32>) -> u32 {
    match n {
        Some(v) if *v > 0 => *v,
        _ => 1,
    }
}

fn blank_row(s: &Snap) -> Row {
    Row::new(vec![s.default_cell(); s.columns as usize])
}

// ------------------------------------------------------------------------------------------
// reference operations on a dense snapshot
// ------------------------------------------------------------------------------------------

fn r_cursor_down(s: &mut Snap, n: u32) {
    let bottom = s.margins.map(|m| m.1).unwrap_or(s.lines - 1);
    s.cy = (s.cy + n).min(bottom);
}

fn r_cursor_up(s: &mut Snap, n: u32) {
    let top = s.margins.map(|m| m.0).unwrap_or(0);
    s.cy = s.cy.saturating_sub(n).max(top);
}

fn r_index(s: &mut Snap) {
    let (top, bot) = s.region();
    if s.cy == bot {
        let blank = blank_row(s);
        for y in top..bot {
            s.grid[y as usize] = s.grid[(y + 1) as usize].clone();
        }
        s.grid[bot as usize] = blank;
    } else {
        r_cursor_down(s, 1);
    }
}

fn r_reverse_index(s: &mut Snap) {
    let (top, bot) = s.region();
    if s.cy == top {
        let blank = blank_row(s);
        let mut y = bot;
        while y > top {
            s.grid[y as usize] = s.grid[(y - 1) as usize].clone();
            y -= 1;
        }
        s.grid[top as usize] = blank;
    } else {
        r_cursor_up(s, 1);
    }
}

fn r_home(s: &mut Snap) {
    // cursor_position(None, None)
    s.cx = 0;
    s.cy = match (s.has_mode(DECOM), s.margins) {
        (true, Some((top, _))) => top,
        _ => 0,
    };
}

fn r_erase_row(s: &mut Snap, y: u32, from: u32, to_excl: u32) {
    let blank = Cell::blank(s.cattr.clone());
    let to = to_excl.min(s.columns);
    for x in from..to {
        s.grid[y as usize][x as usize] = blank.clone();
    }
}

fn r_el(s: &mut Snap, how: u32) {
    let c = s.columns;
    match how {
        0 => r_erase_row(s, s.cy, s.cx.min(c), c),
        1 => r_erase_row(s, s.cy, 0, s.cx.min(c - 1) + 1),
        2 => r_erase_row(s, s.cy, 0, c),
        _ => {}
    }
}

fn sgr_fold(start: &Attr, dflt: &Attr, codes: &[u32]) -> Attr {
    let mut a = start.clone();
    let owned;
    let codes = if codes.is_empty() {
        owned = [0u32];
        &owned[..]
    } else {
        codes
    };
    let mut it = codes.iter().cloned();
    while let Some(c) = it.next() {
        match c {
            0 => a = dflt.clone(),
            1 => a.flags |= BOLD,
            3 => a.flags |= ITALICS,
            4 => a.flags |= UNDERSCORE,
            5 => a.flags |= BLINK,
            7 => a.flags |= REVERSE,
            9 => a.flags |= STRIKE,
            22 => a.flags &= !BOLD,
            23 => a.flags &= !ITALICS,
            24 => a.flags &= !UNDERSCORE,
            25 => a.flags &= !BLINK,
            27 => a.flags &= !REVERSE,
            29 => a.flags &= !STRIKE,
            30..=37 => a.fg = Col::Named((c - 30) as u8),
            39 => a.fg = Col::Default,
            40..=47 => a.bg = Col::Named((c - 40) as u8),
            49 => a.bg = Col::Default,
            90..=97 => a.fg = Col::Named((c - 90 + 8) as u8),
            100..=107 => a.bg = Col::Named((c - 100 + 8) as u8),
            38 | 48 => {
                let mut set = |col: Col| {
                    if c == 38 {
                        a.fg = col
                    } else {
                        a.bg = col
                    }
                };
                match it.next() {
                    Some(5) => {
                        if let Some(m) = it.next() {
                            if m <= 255 {
                                set(Col::Rgb(palette256(m)));
                            }
                        }
                    }
                    Some(2) => {
                        let r = it.next();
                        let g = it.next();
                        let b = it.next();
                        if let (Some(r), Some(g), Some(b)) = (r, g, b) {
                            if r <= 255 && g <= 255 && b <= 255 {
                                set(Col::Rgb((r << 16) | (g << 8) | b));
                            }
                        }
                    }
                    _ => {}
                }
            }
            _ => {}
        }
    }
    a
}

pub fn default_tabstops(columns: u32) -> BTreeSet<u32> {
    let mut t = BTreeSet::new();
    let mut c = 8;
    while c < columns {
        t.insert(c);
        c += 8;
    }
    t
}

pub fn fresh(columns: u32, lines: u32) -> Snap {
    let d = Cell::blank(Attr::default_with(false));
    Snap {
        lines,
        columns,
        grid: vec![Row::new(vec![d; columns as usize]); lines as usize],
        cx: 0,
        cy: 0,
        cattr: Attr::default_with(false),
        hidden: false,
        modes: [DECAWM, DECTCEM].into_iter().collect(),
        margins: None,
        tabstops: default_tabstops(columns),
        title: String::new(),
        icon: String::new(),
        g1_active: false,
        g0: Table::Lat1,
        g1: Table::Vt100,
        saved: Vec::new(),
        dirty: (0..lines).collect(),
        saved_columns: None,
    }
}

/// crop / extend the grid to a new geometry (rows dropped from the top, columns from the right)
fn r_regrid(s: &mut Snap, nl: u32, nc: u32) {
    let d = s.default_cell();
    if nl < s.lines {
        let drop = (s.lines - nl) as usize;
        s.grid.drain(0..drop);
    }
    while (s.grid.len() as u32) < nl {
        s.grid.push(Row::new(vec![d.clone(); s.columns as usize]));
    }
    for row in s.grid.iter_mut() {
        row.resize(nc as usize, d.clone());
    }
    s.lines = nl;
    s.columns = nc;
}

fn mode_list(modes: &[u32], private: bool) -> Vec<u32> {
    modes.iter().map(|m| if private { m << 5 } else { *m }).collect()
}

fn orphan_alts(c: &Cell, dflt: &Cell) -> CellAlt {
    CellAlt::Also(vec![Cell::blank(c.attr.clone()), dflt.clone()])
}

fn is_wide_lead(c: &Cell) -> bool {
    c.text.chars().next().map(|ch| ch.width() == Some(2)).unwrap_or(false)
}

/// one character of draw(); returns the successor alternatives
fn draw_char(mut e: Exp, ch: char) -> Vec<Exp> {
    if e.unknown_after {
        e.any_all = true;
    }
    if e.any_all {
        return vec![e];
    }
    let tbl = if e.s.g1_active { e.s.g1 } else { e.s.g0 };
    let c = if (ch as u32) < 256 {
        match tbl.chars() {
            Some(t) => t[ch as usize],
            None => {
                // unknown translation table: C20 reports that; nothing can be said here
                e.any_all = true;
                e.lenient = true;
                return vec![e];
            }
        }
    } else {
        ch
    };
    let w = c.width().unwrap_or(0) as u32;
    let cols = e.s.columns;
    let dflt = e.s.default_cell();
    if w == 0 {
        if !is_combining_mark(c) {
            return vec![e]; // changes nothing
        }
        let mut outs = Vec::new();
        // starting points: in place, or (statement ambiguous) after the pending wrap was taken
        let mut starts = vec![e.clone()];
        if e.s.cx == cols && e.s.has_mode(DECAWM) {
            let mut w2 = e.clone();
            w2.lenient = true;
            w2.s.cx = 0;
            r_index(&mut w2.s);
            starts.push(w2);
        }
        for st in starts {
            let (x, y) = (st.s.cx, st.s.cy);
            let mut targets: Vec<(u32, u32)> = Vec::new();
            if x > 0 {
                targets.push((y, x - 1));
                if x >= 2 && st.s.grid[y as usize][(x - 1) as usize].text.is_empty() {
                    targets.push((y, x - 2));
                }
            } else if y > 0 {
                targets.push((y - 1, cols - 1));
            }
            if targets.is_empty() {
                outs.push(st);
                continue;
            }
            let multi = targets.len() > 1;
            for (ty, tx) in targets {
                let mut o = st.clone();
                if multi {
                    o.lenient = true;
                }
                let cell = &mut o.s.grid[ty as usize][tx as usize];
                let was_blank = cell.text == " ";
                let old = cell.clone();
                let mut t = cell.text.clone();
                t.push(c);
                cell.text = nfc(&t);
                if was_blank {
                    // blank / never written target: appended or ignored
                    o.alt(ty as usize, tx as usize, CellAlt::Also(vec![old]));
                }
                outs.push(o);
            }
        }
        return outs;
    }
    if w > 2 {
        // unicode-width reports a few characters wider than two cells; the statement only
        // speaks of widths 0, 1 and 2
        e.any_all = true;
        e.lenient = true;
        return vec![e];
    }
    // printable, w = 1 or 2
    let s = &mut e.s;
    if s.cx >= cols {
        if s.has_mode(DECAWM) {
            s.cx = 0;
            r_index(s);
            if s.has_mode(LNM) {
                s.cx = 0;
            }
        } else {
            s.cx = cols.saturating_sub(w);
        }
    }
    if w == 2 && s.cx + 1 >= cols {
        // a double-width character with a single column left: the statement is silent about
        // its placement - the cursor row and the cursor column are don't-care, the frame
        // (every other row and component) is still checked; nothing can be said about the
        // characters that follow it in the same string
        let y = s.cy as usize;
        for x in 0..cols as usize {
            e.cell_alt.push(((y, x), CellAlt::Any));
        }
        e.cx_also = (0..=cols).collect();
        e.lenient = true;
        e.unknown_after = true;
        return vec![e];
    }
    let (x, y) = (s.cx as usize, s.cy as usize);
    if s.has_mode(IRM) {
        let k = (w as usize).min(cols as usize - x);
        let row = &mut s.grid[y];
        for _ in 0..k {
            row.insert(x, dflt.clone());
        }
        row.truncate(cols as usize);
    }
    let old_row = s.grid[y].clone();
    let attr = s.cattr.clone();
    // (snapshots compare cell text modulo NFC: e.g. U+2000 EN QUAD normalises to U+2002)
    s.grid[y][x] = Cell { text: nfc(&c.to_string()), attr: attr.clone() };
    if w == 2 {
        s.grid[y][x + 1] = Cell { text: String::new(), attr };
    }
    s.cx = (s.cx + w).min(cols);
    // orphaned halves of double-width pairs: {unchanged, blank}
    let last = x + w as usize - 1;
    if old_row[x].text.is_empty() && x > 0 && is_wide_lead(&old_row[x - 1]) {
        let a = orphan_alts(&old_row[x - 1], &dflt);
        e.alt(y, x - 1, a);
    }
    if is_wide_lead(&old_row[last]) && last + 1 < cols as usize && old_row[last + 1].text.is_empty() {
        let a = orphan_alts(&old_row[last + 1], &dflt);
        e.alt(y, last + 1, a);
    }
    vec![e]
}

fn dedup(mut v: Vec<Exp>) -> Vec<Exp> {
    let mut out: Vec<Exp> = Vec::new();
    for e in v.drain(..) {
        if !out.iter().any(|o| o.s == e.s && o.any_all == e.any_all && o.cell_alt.len() == e.cell_alt.len()) {
            out.push(e);
        }
        if out.len() >= 8 {
            break;
        }
    }
    out
}

/// The acceptable post-states of `call` from `pre` (first alternative = primary expectation).
pub fn expect(call: &Call, pre: &Snap) -> Vec<Exp> {
    let mut e = Exp::new(pre.clone());
    let l = pre.lines;
    let c = pre.columns;
    use Call::*;
    match call {
        Draw(text) => {
            let mut alts = vec![e];
            for ch in text.chars() {
                let mut next = Vec::new();
                for a in alts {
                    next.extend(draw_char(a, ch));
                }
                alts = dedup(next);
            }
            return alts;
        }
        Bell | ReportDeviceAttributes(_) => {}
        Display => {
            e.dirty_exact = Some(pre.dirty.clone());
        }
        AlignmentDisplay => {
            // owner "-": every cell shows E; attributes of never-written cells unspecified
            for y in 0..l as usize {
                for x in 0..c as usize {
                    e.s.grid[y][x].text = "E".into();
                }
            }
            e.any_all = true;
        }
        Backspace => {
            let x = e.s.cx.min(c - 1);
            e.s.cx = x.saturating_sub(1);
        }
        CarriageReturn => e.s.cx = 0,
        CursorUp(n) => r_cursor_up(&mut e.s, nz(n)),
        CursorDown(n) => r_cursor_down(&mut e.s, nz(n)),
        CursorUp1(n) => {
            r_cursor_up(&mut e.s, nz(n));
            e.s.cx = 0;
        }
        CursorDown1(n) => {
            r_cursor_down(&mut e.s, nz(n));
            e.s.cx = 0;
        }
        CursorForward(n) => e.s.cx = (e.s.cx + nz(n)).min(c - 1),
        CursorBack(n) => {
            let x = e.s.cx.min(c - 1);
            e.s.cx = x.saturating_sub(nz(n));
        }
        CursorToColumn(n) => e.s.cx = (nz(n) - 1).min(c - 1),
        CursorToLine(n) => {
            let mut line = nz(n) - 1;
            match (pre.has_mode(DECOM), pre.margins) {
                (true, Some((top, bot))) => {
                    line += top;
                    e.s.cy = line.clamp(top, bot);
                }
                _ => e.s.cy = line.min(l - 1),
            }
        }
        CursorPosition(ln, col) => {
            let col = nz(col) - 1;
            let mut line = nz(ln) - 1;
            let mut ignore = false;
            let mut bounds = (0, l - 1);
            if let (true, Some((top, bot))) = (pre.has_mode(DECOM), pre.margins) {
                line += top;
                if line < top || line > bot {
                    ignore = true;
                }
                bounds = (top, bot);
            }
            if !ignore {
                e.s.cx = col.min(c - 1);
                e.s.cy = line.clamp(bounds.0, bounds.1);
            }
        }
        Index => r_index(&mut e.s),
        Linefeed => {
            r_index(&mut e.s);
            if pre.has_mode(LNM) {
                e.s.cx = 0;
            }
        }
        ReverseIndex => r_reverse_index(&mut e.s),
        InsertLines(n) | DeleteLines(n) => {
            let (top, bot) = pre.region();
            let y = pre.cy;
            if top <= y && y <= bot {
                let k = nz(n).min(bot - y + 1);
                let blank = blank_row(pre);
                let span: Vec<Row> = (y..=bot).map(|r| pre.grid[r as usize].clone()).collect();
                let len = span.len();
                for i in 0..len {
                    let row = if matches!(call, InsertLines(_)) {
                        if i < k as usize {
                            blank.clone()
                        } else {
                            span[i - k as usize].clone()
                        }
                    } else if i + (k as usize) < len {
                        span[i + k as usize].clone()
                    } else {
                        blank.clone()
                    };
                    e.s.grid[y as usize + i] = row;
                }
                e.s.cx = 0;
            }
        }
        SetMargins(t, b) => {
            if t.unwrap_or(0) == 0 && b.is_none() {
                e.s.margins = None;
                // statement silent about the cursor when the region is removed
                let mut h = e.s.clone();
                r_home(&mut h);
                e.cx_also.push(h.cx);
                e.cy_also.push(h.cy);
                e.cy_also.push(0);
            } else {
                let cur = pre.region();
                let conv = |v: u32| -> u32 { v.saturating_sub(1).min(l - 1) };
                let top = t.map(conv).unwrap_or(cur.0);
                let bot = b.map(conv).unwrap_or(cur.1);
                if bot > top {
                    e.s.margins = Some((top, bot));
                    r_home(&mut e.s);
                }
                if t.unwrap_or(0) == 0 && *b == Some(0) {
                    // `CSI ;r` / `CSI 0;0r`: rejected, or treated like `CSI r`
                    let mut alt = Exp::new(pre.clone());
                    alt.lenient = true;
                    alt.s.margins = None;
                    let mut h = alt.s.clone();
                    r_home(&mut h);
                    alt.cx_also.push(h.cx);
                    alt.cy_also.push(h.cy);
                    alt.cy_also.push(0);
                    return vec![e, alt];
                }
            }
        }
        EraseInLine(how) => r_el(&mut e.s, how.unwrap_or(0)),
        EraseInDisplay(how) => {
            let how = how.unwrap_or(0);
            match how {
                0 => {
                    r_el(&mut e.s, 0);
                    for y in pre.cy + 1..l {
                        r_erase_row(&mut e.s, y, 0, c);
                    }
                }
                1 => {
                    r_el(&mut e.s, 1);
                    for y in 0..pre.cy {
                        r_erase_row(&mut e.s, y, 0, c);
                    }
                }
                2 | 3 => {
                    for y in 0..l {
                        r_erase_row(&mut e.s, y, 0, c);
                    }
                }
                _ => {}
            }
        }
        EraseCharacters(n) => {
            let x = pre.cx;
            if x < c {
                r_erase_row(&mut e.s, pre.cy, x, x.saturating_add(nz(n)).min(c));
            }
        }
        InsertCharacters(n) => {
            let x = pre.cx as usize;
            if (x as u32) < c {
                let k = (nz(n) as usize).min(c as usize - x);
                let d = pre.default_cell();
                let row = &mut e.s.grid[pre.cy as usize];
                for _ in 0..k {
                    row.insert(x, d.clone());
                }
                row.truncate(c as usize);
            }
        }
        DeleteCharacters(n) => {
            let x = pre.cx as usize;
            if (x as u32) < c {
                let k = (nz(n) as usize).min(c as usize - x);
                let d = pre.default_cell();
                let row = &mut e.s.grid[pre.cy as usize];
                row.drain(x..x + k);
                row.resize(c as usize, d);
            }
        }
        Sgr(codes) => {
            let d = Attr::default_with(pre.has_mode(DECSCNM));
            e.s.cattr = sgr_fold(&pre.cattr, &d, codes);
            if codes.is_empty() {
                // only reachable through the API (the parser delivers [0] for `CSI m`): the fold of
                // an empty list is the identity, the documented implementation resets - both accepted
                let mut alt = Exp::new(pre.clone());
                alt.lenient = true;
                return vec![e, alt];
            }
        }
        SetTabStop => {
            e.s.tabstops.insert(pre.cx);
        }
        ClearTabStop(how) => match how.unwrap_or(0) {
            0 => {
                e.s.tabstops.remove(&pre.cx);
            }
            3 => e.s.tabstops.clear(),
            _ => {}
        },
        Tab => {
            let next = pre.tabstops.iter().cloned().find(|s| *s > pre.cx);
            e.s.cx = match next {
                Some(s) if s <= c - 1 => s,
                _ => c - 1,
            };
        }
        SaveCursor => {
            e.s.saved.push(Saved {
                x: pre.cx,
                y: pre.cy,
                attr: pre.cattr.clone(),
                hidden: pre.hidden,
                g1_active: pre.g1_active,
                g0: pre.g0,
                g1: pre.g1,
                origin: pre.has_mode(DECOM),
                wrap: pre.has_mode(DECAWM),
            });
        }
        RestoreCursor => {
            if let Some(sp) = e.s.saved.pop() {
                e.s.g0 = sp.g0;
                e.s.g1 = sp.g1;
                e.s.g1_active = sp.g1_active;
                if sp.origin {
                    e.s.modes.insert(DECOM);
                }
                if sp.wrap {
                    e.s.modes.insert(DECAWM);
                }
                e.s.cattr = sp.attr.clone();
                e.s.hidden = sp.hidden;
                e.s.cx = sp.x.min(c - 1);
                if sp.x >= c {
                    e.cx_also.push(c);
                }
                let (lo, hi) = match pre.margins {
                    Some(m) => m,
                    None => (0, l - 1),
                };
                e.s.cy = sp.y.clamp(lo, hi);
            } else {
                e.s.modes.remove(&DECOM);
                e.s.cx = 0;
                e.s.cy = 0;
            }
        }
        ShiftOut => e.s.g1_active = true,
        ShiftIn => e.s.g1_active = false,
        DefineCharset(code, mode) => {
            if let Some(t) = Table::for_code(code) {
                if mode == "(" {
                    e.s.g0 = t;
                } else if mode == ")" {
                    e.s.g1 = t;
                }
            }
        }
        SetTitle(t) => e.s.title = t.clone(),
        SetIconName(t) => e.s.icon = t.clone(),
        Reset => {
            let mut f = fresh(c, l);
            f.saved = pre.saved.clone();
            e.s = f;
            e.dirty_all = true;
        }
        Resize(nl, nc) => {
            let nl = nl.unwrap_or(l);
            let nc = nc.unwrap_or(c);
            if nl == l && nc == c {
                e.dirty_exact = Some(pre.dirty.clone());
            } else {
                r_regrid(&mut e.s, nl, nc);
                e.s.margins = None;
                e.cursor_inside = true;
                e.dirty_all = true;
            }
        }
        SetMode(modes, private) => {
            let list = mode_list(modes, *private);
            for m in &list {
                e.s.modes.insert(*m);
            }
            if list.contains(&DECCOLM) {
                e.lenient = true;
                if c != 132 {
                    e.s.saved_columns = Some(c);
                    r_regrid(&mut e.s, l, 132);
                    e.margins_also.push(e.s.margins);
                    e.s.margins = None;
                } else {
                    e.saved_columns_any = true;
                    e.margins_also.push(None);
                }
                deccolm_erase_home(&mut e, pre);
            }
            if list.contains(&DECOM) {
                r_home(&mut e.s);
                home_alts(&mut e);
            }
            if list.contains(&DECSCNM) {
                set_reverse(&mut e, true);
            }
            if list.contains(&DECTCEM) {
                e.s.hidden = false;
            }
        }
        ResetMode(modes, private) => {
            let list = mode_list(modes, *private);
            for m in &list {
                e.s.modes.remove(m);
            }
            if list.contains(&DECCOLM) {
                e.lenient = true;
                match (c == 132, pre.saved_columns) {
                    (true, Some(w)) if w >= 1 => {
                        if w != 132 {
                            r_regrid(&mut e.s, l, w);
                            e.margins_also.push(e.s.margins);
                            e.s.margins = None;
                        } else {
                            e.margins_also.push(None);
                        }
                        e.s.saved_columns = None;
                        e.saved_columns_any = true;
                    }
                    _ => {
                        e.saved_columns_any = true;
                        e.margins_also.push(None);
                    }
                }
                deccolm_erase_home(&mut e, pre);
            }
            if list.contains(&DECOM) {
                r_home(&mut e.s);
                home_alts(&mut e);
            }
            if list.contains(&DECSCNM) {
                set_reverse(&mut e, false);
            }
            if list.contains(&DECTCEM) {
                e.s.hidden = true;
            }
        }
    }
    vec![e]
}

/// DECCOLM: "erases the screen and homes the cursor"; the rendition of the blanks may be the
/// cursor's or the default one.
fn deccolm_erase_home(e: &mut Exp, pre: &Snap) {
    let blank = Cell::blank(e.s.cattr.clone());
    for row in e.s.grid.iter_mut() {
        for cell in row.iter_mut() {
            *cell = blank.clone();
        }
    }
    e.all_cells_also.push(e.s.default_cell());
    e.all_cells_also.push(pre.default_cell());
    e.all_cells_also.push(Cell::blank(pre.cattr.clone()));
    e.all_cells_uniform = true;
    r_home(&mut e.s);
    home_alts(e);
    e.home_consistent = true;
}

/// when the margins themselves are lenient, home may be row 0 or the top margin
fn home_alts(e: &mut Exp) {
    if !e.margins_also.is_empty() {
        e.cy_also.push(0);
        if e.s.has_mode(DECOM) {
            for m in e.margins_also.clone() {
                if let Some((t, _)) = m {
                    e.cy_also.push(t);
                }
            }
        }
    }
}

fn set_reverse(e: &mut Exp, on: bool) {
    let f = |a: &mut Attr| {
        if on {
            a.flags |= REVERSE
        } else {
            a.flags &= !REVERSE
        }
    };
    for row in e.s.grid.iter_mut() {
        for cell in row.iter_mut() {
            f(&mut cell.attr);
        }
    }
    for c in e.all_cells_also.iter_mut() {
        f(&mut c.attr);
    }
    f(&mut e.s.cattr);
    e.dirty_all = true;
}

/// compare one alternative with the observed post-state
pub fn compare(e: &Exp, post: &Snap) -> Vec<Mismatch> {
    let mut m = Vec::new();
    if e.any_all {
        return m;
    }
    let x = &e.s;
    let mm = |clause: &'static str, detail: String| Mismatch { clause, detail };
    if x.lines != post.lines || x.columns != post.columns {
        m.push(mm(
            "geometry",
            format!("expected {}x{} got {}x{}", x.columns, x.lines, post.columns, post.lines),
        ));
        return m;
    }
    if e.cursor_inside {
        if !(post.cx <= post.columns && post.cy < post.lines) {
            m.push(mm("cursor", format!("cursor ({},{}) outside {}x{}", post.cx, post.cy, post.columns, post.lines)));
        }
    } else {
        let xok = post.cx == x.cx || e.cx_also.contains(&post.cx);
        let mut yok = post.cy == x.cy || e.cy_also.contains(&post.cy);
        if e.home_consistent {
            // "homes the cursor": home of the state that came out (row 0, or the top margin when
            // origin mode is on and a region is in force)
            let want = if post.has_mode(DECOM) { post.margins.map(|m| m.0).unwrap_or(0) } else { 0 };
            if post.cy != want {
                yok = false;
            }
        }
        if !xok || !yok {
            m.push(mm(
                "cursor",
                format!("expected (x={},y={}) got (x={},y={})", x.cx, x.cy, post.cx, post.cy),
            ));
        }
    }
    if x.cattr != post.cattr {
        m.push(mm("rendition", format!("expected {} got {}", x.cattr.show(), post.cattr.show())));
    }
    if x.hidden != post.hidden {
        m.push(mm("hidden", format!("expected {} got {}", x.hidden, post.hidden)));
    }
    if x.modes != post.modes {
        m.push(mm("modes", format!("expected {:?} got {:?}", x.modes, post.modes)));
    }
    if x.margins != post.margins && !e.margins_also.contains(&post.margins) {
        m.push(mm("margins", format!("expected {:?} got {:?}", x.margins, post.margins)));
    }
    {
        let a: Vec<u32> = x.tabstops.iter().cloned().filter(|t| *t < e.tab_below).collect();
        let b: Vec<u32> = post.tabstops.iter().cloned().filter(|t| *t < e.tab_below).collect();
        if a != b {
            m.push(mm("tabstops", format!("expected {:?} got {:?} (below column {})", a, b, e.tab_below)));
        }
    }
    if x.title != post.title {
        m.push(mm("title", format!("expected {:?} got {:?}", x.title, post.title)));
    }
    if x.icon != post.icon {
        m.push(mm("icon", format!("expected {:?} got {:?}", x.icon, post.icon)));
    }
    if (x.g1_active, x.g0, x.g1) != (post.g1_active, post.g0, post.g1) {
        m.push(mm(
            "charset",
            format!(
                "expected g{} {:?}/{:?} got g{} {:?}/{:?}",
                x.g1_active as u8, x.g0, x.g1, post.g1_active as u8, post.g0, post.g1
            ),
        ));
    }
    if x.saved != post.saved {
        m.push(mm(
            "saved",
            format!("saved-cursor stack: expected depth {} top {:?}; got depth {} top {:?}", x.saved.len(), x.saved.last(), post.saved.len(), post.saved.last()),
        ));
    }
    if !e.saved_columns_any && x.saved_columns != post.saved_columns {
        m.push(mm("saved_columns", format!("expected {:?} got {:?}", x.saved_columns, post.saved_columns)));
    }
    if let Some(d) = &e.dirty_exact {
        if d != &post.dirty {
            m.push(mm("dirty", format!("dirty must stay {:?}, got {:?}", d, post.dirty)));
        }
    }
    if e.dirty_all {
        let missing: Vec<u32> = (0..post.lines).filter(|r| !post.dirty.contains(r)).collect();
        if !missing.is_empty() {
            m.push(mm("dirty", format!("every row must be dirty; missing {:?}", missing)));
        }
    }
    if e.all_cells_uniform && x.lines > 0 && x.columns > 0 {
        let first = &post.grid[0][0];
        'u: for (yy, row) in post.grid.iter().enumerate() {
            for (xx, c) in row.iter().enumerate() {
                if c != first {
                    m.push(mm("cell", format!("the erased screen is not uniform: cell(row 0,col 0) is {} but cell(row {},col {}) is {}", first.show(), yy, xx, c.show())));
                    break 'u;
                }
            }
        }
    }
    let mut cells = 0;
    for y in 0..x.lines as usize {
        if x.grid[y] == post.grid[y] {
            continue;
        }
        for xx in 0..x.columns as usize {
            let exp = &x.grid[y][xx];
            let got = &post.grid[y][xx];
            if exp.same_modulo_nfc(got) {
                continue;
            }
            if e.all_cells_also.iter().any(|c| c.same_modulo_nfc(got)) {
                continue;
            }
            let mut ok = false;
            for ((ay, ax), alt) in &e.cell_alt {
                if *ay == y && *ax == xx {
                    match alt {
                        CellAlt::Any => ok = true,
                        CellAlt::Also(v) => {
                            if v.iter().any(|c| c.same_modulo_nfc(got)) {
                                ok = true
                            }
                        }
                    }
                }
            }
            if !ok {
                cells += 1;
                if cells <= 4 {
                    m.push(mm("cell", format!("cell(row {},col {}) expected {} got {}", y, xx, exp.show(), got.show())));
                }
            }
        }
    }
    if cells > 4 {
        m.push(mm("cell", format!("... {} cells differ in total", cells)));
    }
    m
}

pub struct Verdict {
    pub mismatches: Vec<Mismatch>,
    pub lenient: bool,
    pub skipped: bool,
    pub n_alts: usize,
}

/// Judge one step.
pub fn judge(call: &Call, pre: &Snap, post: &Snap) -> Verdict {
    let alts = expect(call, pre);
    let n_alts = alts.len();
    let mut first: Option<Vec<Mismatch>> = None;
    let mut lenient = false;
    for (i, a) in alts.iter().enumerate() {
        if a.any_all {
            return Verdict { mismatches: vec![], lenient: true, skipped: true, n_alts };
        }
        let mm = compare(a, post);
        if mm.is_empty() {
            return Verdict { mismatches: vec![], lenient: a.lenient || i > 0, skipped: false, n_alts };
        }
        lenient |= a.lenient;
        if first.is_none() {
            first = Some(mm);
        }
    }
    Verdict { mismatches: first.unwrap_or_default(), lenient, skipped: false, n_alts }
}

/// did the step have an observable effect or hit a clamp (evidence: "non-trivial")
pub fn nontrivial(call: &Call, pre: &Snap, post: &Snap) -> bool {
    if !pre.eq_nodirty(post) {
        return true;
    }
    // no observable change: non-trivial only if a clamp / guard was exercised
    use Call::*;
    match call {
        CursorUp(_) | CursorDown(_) | CursorForward(_) | CursorBack(_) | CursorUp1(_) | CursorDown1(_)
        | CursorToColumn(_) | CursorToLine(_) | CursorPosition(..) | Backspace | Tab => true,
        InsertLines(_) | DeleteLines(_) => {
            let (t, b) = pre.region();
            pre.cy < t || pre.cy > b
        }
        SetMargins(..) => true,
        _ => false,
    }
}
