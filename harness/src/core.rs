//! Shared framework types: cases (replayable), violations (with signatures), per-shard
//! statistics that become the evidence file, and the execution context handed to a check.

use std::collections::{BTreeMap, BTreeSet, HashSet};
use std::time::{Duration, Instant};

use serde::{Deserialize, Serialize};
use serde_json::{json, Value};

use crate::rng::{hash64, Rng};
use crate::sys::{Op, PK};

#[derive(Clone, Copy, Debug, PartialEq, Eq)]
pub enum Tier {
    Quick,
    Thorough,
}

impl Tier {
    pub fn name(&self) -> &'static str {
        match self {
            Tier::Quick => "quick",
            Tier::Thorough => "thorough",
        }
    }
}

/// A self-contained, replayable case.  `setup` brings a fresh screen of the given geometry into
/// a state; `ops` is the judged part; `aux` carries check-specific parameters.
#[derive(Clone, Debug, Serialize, Deserialize)]
pub struct Case {
    pub check: String,
    pub kind: String,
    pub columns: u32,
    pub lines: u32,
    pub pk: PK,
    pub setup: Vec<Op>,
    pub ops: Vec<Op>,
    #[serde(default)]
    pub aux: Value,
}

impl Case {
    pub fn new(check: &str, kind: &str, columns: u32, lines: u32, pk: PK) -> Case {
        Case { check: check.into(), kind: kind.into(), columns, lines, pk, setup: vec![], ops: vec![], aux: Value::Null }
    }
    pub fn size(&self) -> usize {
        let f = |o: &Op| match o {
            Op::Feed(s) => 1 + s.len(),
            Op::FeedBytes(b) => 1 + b.len(),
            _ => 1,
        };
        self.setup.iter().map(f).sum::<usize>() + self.ops.iter().map(f).sum::<usize>()
    }
}

#[derive(Clone, Debug, Serialize, Deserialize)]
pub struct Viol {
    pub prop: String,
    pub clause: String,
    pub op: String,
    /// coarse, seed-independent state/parameter class (part of the signature)
    pub bucket: String,
    pub detail: String,
    pub case: Case,
}

impl Viol {
    pub fn sig(&self) -> String {
        format!("{}:{}:{}:{}", self.prop, self.clause, self.op, self.bucket)
    }
}

#[derive(Default, Clone, Debug, Serialize, Deserialize)]
pub struct Stats {
    pub evaluations: u64,
    /// hashes of distinct non-trivial case classes
    pub nontrivial: HashSet<u64>,
    pub nontrivial_evals: u64,
    pub clause_evals: BTreeMap<String, u64>,
    pub op_hist: BTreeMap<String, u64>,
    pub features: BTreeMap<String, u64>,
    pub geoms: BTreeSet<String>,
    pub counters: BTreeMap<String, u64>,
    pub samples: Vec<Value>,
    pub sample_keys: BTreeSet<String>,
    /// signature -> (first violation, count)
    pub viols: BTreeMap<String, (Viol, u64)>,
    pub exhaustive_parts: BTreeSet<String>,
    pub budget_hit: bool,
    pub sanitizer: Vec<Value>,
}

impl Stats {
    pub fn count(&mut self, k: &str, n: u64) {
        *self.counters.entry(k.to_string()).or_insert(0) += n;
    }
    pub fn max(&mut self, k: &str, n: u64) {
        let e = self.counters.entry(k.to_string()).or_insert(0);
        if n > *e {
            *e = n;
        }
    }
    pub fn clause(&mut self, k: &str) {
        *self.clause_evals.entry(k.to_string()).or_insert(0) += 1;
    }
    pub fn op(&mut self, k: &str) {
        *self.op_hist.entry(k.to_string()).or_insert(0) += 1;
    }
    pub fn feature(&mut self, k: &str) {
        *self.features.entry(k.to_string()).or_insert(0) += 1;
    }
    pub fn eval(&mut self, class_key: &str, nontrivial: bool) {
        self.evaluations += 1;
        if nontrivial {
            self.nontrivial_evals += 1;
            self.nontrivial.insert(hash64(class_key));
        }
    }
    /// keep the first case of up to `cap` distinct sample keys
    pub fn sample(&mut self, key: &str, cap: usize, f: impl FnOnce() -> Value) {
        if self.samples.len() < cap && !self.sample_keys.contains(key) {
            self.sample_keys.insert(key.to_string());
            self.samples.push(f());
        }
    }
    pub fn violation(&mut self, v: Viol) -> bool {
        let sig = v.sig();
        match self.viols.get_mut(&sig) {
            Some(e) => {
                e.1 += 1;
                // prefer the smaller witness
                if v.case.size() < e.0.case.size() {
                    e.0 = v;
                }
                false
            }
            None => {
                if self.viols.len() >= 150 {
                    // enough distinct witnesses from this shard; keep counting
                    self.count("violation_signatures_not_recorded", 1);
                    return false;
                }
                self.viols.insert(sig, (v, 1));
                true
            }
        }
    }
    pub fn merge(&mut self, o: Stats) {
        self.evaluations += o.evaluations;
        self.nontrivial_evals += o.nontrivial_evals;
        self.nontrivial.extend(o.nontrivial);
        for (k, v) in o.clause_evals {
            *self.clause_evals.entry(k).or_insert(0) += v;
        }
        for (k, v) in o.op_hist {
            *self.op_hist.entry(k).or_insert(0) += v;
        }
        for (k, v) in o.features {
            *self.features.entry(k).or_insert(0) += v;
        }
        self.geoms.extend(o.geoms);
        for (k, v) in o.counters {
            if k.starts_with("max_") {
                let e = self.counters.entry(k).or_insert(0);
                if v > *e {
                    *e = v
                }
            } else {
                *self.counters.entry(k).or_insert(0) += v;
            }
        }
        for (i, s) in o.samples.into_iter().enumerate() {
            // interleave: keep a few samples from every shard
            if self.samples.len() < 12 && i < 2 {
                self.samples.push(s);
            }
        }
        for (sig, (v, n)) in o.viols {
            match self.viols.get_mut(&sig) {
                Some(e) => {
                    e.1 += n;
                    if v.case.size() < e.0.case.size() {
                        e.0 = v;
                    }
                }
                None => {
                    self.viols.insert(sig, (v, n));
                }
            }
        }
        self.exhaustive_parts.extend(o.exhaustive_parts);
        self.budget_hit |= o.budget_hit;
        self.sanitizer.extend(o.sanitizer);
    }
}

pub struct Ctx {
    pub tier: Tier,
    pub seed: u64,
    pub shard: u32,
    pub nshards: u32,
    pub rng: Rng,
    pub stats: Stats,
    pub start: Instant,
    pub budget: Duration,
    pub verbose: bool,
    /// when set, only this group index is executed (crash reproduction)
    pub only_group: Option<u64>,
    pub journal: Option<std::fs::File>,
    pub case_journal: Option<std::path::PathBuf>,
    pub group: u64,
}

impl Ctx {
    pub fn new(tier: Tier, seed: u64, shard: u32, nshards: u32, budget: Duration) -> Ctx {
        let rng = Rng::new(seed.wrapping_mul(0x1_0000_0001).wrapping_add(shard as u64 * 7919 + 13));
        Ctx {
            tier,
            seed,
            shard,
            nshards,
            rng,
            stats: Stats::default(),
            start: Instant::now(),
            budget,
            verbose: false,
            only_group: None,
            journal: None,
            case_journal: None,
            group: 0,
        }
    }
    pub fn quick(&self) -> bool {
        self.tier == Tier::Quick
    }
    pub fn out_of_time(&mut self) -> bool {
        if self.start.elapsed() >= self.budget {
            self.stats.budget_hit = true;
            true
        } else {
            false
        }
    }
    /// fraction of the time budget used
    pub fn used(&self) -> f64 {
        self.start.elapsed().as_secs_f64() / self.budget.as_secs_f64().max(0.001)
    }
    /// does item `i` of an enumerated (seed-independent) space belong to this shard?
    pub fn mine(&self, i: u64) -> bool {
        i % self.nshards as u64 == self.shard as u64
    }
    /// Begin a group of cases (journalled so that an abort of the process can be attributed).
    /// Returns false if the group must be skipped (crash-reproduction mode selects one group).
    pub fn begin_group(&mut self, label: &str) -> bool {
        self.group += 1;
        if let Some(g) = self.only_group {
            if g != self.group {
                return false;
            }
        }
        if let Some(f) = self.journal.as_mut() {
            use std::io::{Seek, SeekFrom, Write};
            let line = format!("{} {:<60}\n", self.group, &label.chars().take(60).collect::<String>());
            let _ = f.seek(SeekFrom::Start(0));
            let _ = f.write_all(line.as_bytes());
        }
        true
    }
    /// In crash-reproduction mode (a single group is re-run alone) every case is journalled
    /// before it is executed, so that an abort / hang can be turned into a replayable case.
    pub fn journal_case(&mut self, mk: &dyn Fn() -> Case) {
        if self.only_group.is_none() {
            return;
        }
        if let Some(p) = &self.case_journal {
            let _ = std::fs::write(p, serde_json::to_string(&mk()).unwrap_or_default());
        }
    }
    pub fn past_only_group(&self) -> bool {
        matches!(self.only_group, Some(g) if self.group > g)
    }
    pub fn violation(&mut self, v: Viol) -> bool {
        if self.verbose {
            println!("VIOLATION-DETAIL {} :: {}", v.sig(), v.detail);
        }
        self.stats.violation(v)
    }
}

pub fn stats_to_json(s: &Stats) -> Value {
    serde_json::to_value(s).unwrap_or(json!({}))
}
