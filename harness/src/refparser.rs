//! Independently written explicit-state recogniser for the documented grammar (DESIGN App. A).
//! No coroutine, no shared code with memterm::parser. Used by C03 (and C19/C20 generators).

use crate::call::Call;

#[derive(Clone, Debug, PartialEq, Eq)]
pub enum St {
    Ground,
    Esc,
    Hash,
    Percent,
    Designate(char),
    Csi { params: Vec<u32>, cur: String, private: bool },
    Dollar,
    OscCode,
    Osc { code: char, buf: String },
    OscEsc { code: char, buf: String },
    /// Linux palette commands OSC R / OSC P: behaviour is don't-care until the next resync
    Lenient,
}

#[derive(Clone, Debug, PartialEq, Eq)]
pub enum Exp {
    Ev(Call),
    /// an OSC with a multi-character code finished here: any number of title/icon events accepted
    OscMulti,
    /// from here on nothing is compared (OSC R / OSC P)
    LenientTail,
}

pub struct RefParser {
    pub st: St,
    pub utf8: bool,
    pub out: Vec<Exp>,
    /// reference state classes traversed (for coverage accounting)
    pub path: String,
}

fn value(cur: &str) -> u32 {
    // empty = 0; any digit-run length saturates at 9999
    let mut v: u32 = 0;
    for d in cur.bytes() {
        v = v.saturating_mul(10).saturating_add((d - b'0') as u32);
        if v > 9999 {
            v = 9999;
        }
    }
    v
}

impl RefParser {
    pub fn new(utf8: bool) -> RefParser {
        RefParser { st: St::Ground, utf8, out: Vec::new(), path: String::new() }
    }
    fn ev(&mut self, c: Call) {
        if let Call::Draw(s) = &c {
            if let Some(Exp::Ev(Call::Draw(prev))) = self.out.last_mut() {
                prev.push_str(s);
                return;
            }
        }
        self.out.push(Exp::Ev(c));
    }
    fn c0(&mut self, c: char) -> bool {
        match c {
            '\u{7}' => self.ev(Call::Bell),
            '\u{8}' => self.ev(Call::Backspace),
            '\u{9}' => self.ev(Call::Tab),
            '\u{a}' | '\u{b}' | '\u{c}' => self.ev(Call::Linefeed),
            '\u{d}' => self.ev(Call::CarriageReturn),
            _ => return false,
        }
        true
    }
    fn dispatch(&mut self, f: char, params: &[u32], private: bool) {
        if let Some(c) = ref_dispatch(f, params, private) {
            self.ev(c);
        }
    }
}

/// documented mapping of a CSI final byte and its parameter list to a listener call
pub fn ref_dispatch(f: char, params: &[u32], private: bool) -> Option<Call> {
    {
        use Call::*;
        let p0 = params.first().cloned();
        let p1 = params.get(1).cloned();
        let c = match f {
            '@' => InsertCharacters(p0),
            'A' => CursorUp(p0),
            'B' => CursorDown(p0),
            'C' => CursorForward(p0),
            'D' => CursorBack(p0),
            'E' => CursorDown1(p0),
            'F' => CursorUp1(p0),
            'G' => CursorToColumn(p0),
            'H' | 'f' => CursorPosition(p0, p1),
            'J' => EraseInDisplay(p0),
            'K' => EraseInLine(p0),
            'L' => InsertLines(p0),
            'M' => DeleteLines(p0),
            'P' => DeleteCharacters(p0),
            'X' => EraseCharacters(p0),
            'a' => CursorForward(p0),
            'c' => ReportDeviceAttributes(p0),
            'd' => CursorToLine(p0),
            'e' => CursorDown(p0),
            'g' => ClearTabStop(p0),
            'h' => SetMode(params.to_vec(), private),
            'l' => ResetMode(params.to_vec(), private),
            'm' => Sgr(params.to_vec()),
            'r' => SetMargins(p0, p1),
            _ => return None,
        };
        Some(c)
    }
}

impl RefParser {
    fn finish_osc(&mut self, code: char, buf: &str) {
        let mut it = buf.chars();
        let first = it.next();
        let payload: String = it.collect();
        if let Some(f) = first {
            if f != ';' {
                self.out.push(Exp::OscMulti);
                return;
            }
        }
        if code == '0' || code == '1' {
            self.ev(Call::SetIconName(payload.clone()));
        }
        if code == '0' || code == '2' {
            self.ev(Call::SetTitle(payload));
        }
    }
    pub fn state_class(&self) -> char {
        match self.st {
            St::Ground => 'G',
            St::Esc => 'E',
            St::Hash => 'H',
            St::Percent => 'P',
            St::Designate(_) => 'D',
            St::Csi { .. } => 'C',
            St::Dollar => 'S',
            St::OscCode => 'o',
            St::Osc { .. } => 'O',
            St::OscEsc { .. } => 'X',
            St::Lenient => 'L',
        }
    }
    pub fn step(&mut self, c: char) {
        let st = std::mem::replace(&mut self.st, St::Ground);
        self.st = match st {
            St::Lenient => St::Lenient,
            St::Ground => match c {
                '\u{1b}' => St::Esc,
                '\u{9b}' => St::Csi { params: vec![], cur: String::new(), private: false },
                '\u{9d}' => St::OscCode,
                '\u{e}' => {
                    if !self.utf8 {
                        self.ev(Call::ShiftOut);
                    }
                    St::Ground
                }
                '\u{f}' => {
                    if !self.utf8 {
                        self.ev(Call::ShiftIn);
                    }
                    St::Ground
                }
                _ => {
                    if !self.c0(c) {
                        self.ev(Call::Draw(c.to_string()));
                    }
                    St::Ground
                }
            },
            St::Esc => match c {
                '[' => St::Csi { params: vec![], cur: String::new(), private: false },
                ']' => St::OscCode,
                '#' => St::Hash,
                '%' => St::Percent,
                '(' | ')' => St::Designate(c),
                'c' => {
                    self.ev(Call::Reset);
                    St::Ground
                }
                'D' => {
                    self.ev(Call::Index);
                    St::Ground
                }
                'E' => {
                    self.ev(Call::Linefeed);
                    St::Ground
                }
                'M' => {
                    self.ev(Call::ReverseIndex);
                    St::Ground
                }
                'H' => {
                    self.ev(Call::SetTabStop);
                    St::Ground
                }
                '7' => {
                    self.ev(Call::SaveCursor);
                    St::Ground
                }
                '8' => {
                    self.ev(Call::RestoreCursor);
                    St::Ground
                }
                _ => St::Ground,
            },
            St::Hash => {
                if c == '8' {
                    self.ev(Call::AlignmentDisplay);
                }
                St::Ground
            }
            St::Percent => St::Ground,
            St::Designate(m) => {
                if !self.utf8 {
                    self.ev(Call::DefineCharset(c.to_string(), m.to_string()));
                }
                St::Ground
            }
            St::Csi { mut params, mut cur, mut private } => match c {
                '?' => {
                    private = true;
                    St::Csi { params, cur, private }
                }
                '\u{7}' | '\u{8}' | '\u{9}' | '\u{a}' | '\u{b}' | '\u{c}' | '\u{d}' => {
                    self.c0(c);
                    St::Csi { params, cur, private }
                }
                ' ' | '>' => St::Csi { params, cur, private },
                '\u{18}' | '\u{1a}' => {
                    // abort; the character itself is a Cc text event that the comparison ignores
                    self.ev(Call::Draw(c.to_string()));
                    St::Ground
                }
                '0'..='9' => {
                    cur.push(c);
                    St::Csi { params, cur, private }
                }
                '$' => St::Dollar,
                ';' => {
                    params.push(value(&cur));
                    cur.clear();
                    St::Csi { params, cur, private }
                }
                f => {
                    params.push(value(&cur));
                    self.dispatch(f, &params, private);
                    St::Ground
                }
            },
            St::Dollar => St::Ground,
            St::OscCode => match c {
                'R' | 'P' => {
                    self.out.push(Exp::LenientTail);
                    St::Lenient
                }
                _ => St::Osc { code: c, buf: String::new() },
            },
            St::Osc { code, mut buf } => match c {
                '\u{7}' | '\u{9c}' => {
                    self.finish_osc(code, &buf);
                    St::Ground
                }
                '\u{1b}' => St::OscEsc { code, buf },
                _ => {
                    buf.push(c);
                    St::Osc { code, buf }
                }
            },
            St::OscEsc { code, mut buf } => {
                if c == '\\' {
                    self.finish_osc(code, &buf);
                    St::Ground
                } else {
                    buf.push('\u{1b}');
                    buf.push(c);
                    St::Osc { code, buf }
                }
            }
        };
        self.path.push(self.state_class());
    }
    pub fn feed(&mut self, s: &str) {
        for c in s.chars() {
            self.step(c);
        }
    }
    pub fn is_ground(&self) -> bool {
        self.st == St::Ground
    }
}

fn is_cc(c: char) -> bool {
    (c as u32) < 0x20 || ((c as u32) >= 0x7f && (c as u32) <= 0x9f)
}

fn norm_opt(n: &Option<u32>) -> Option<u32> {
    Some(n.unwrap_or(0))
}

/// normalise a call for comparison: absent numeric argument == 0; Cc characters removed from text
pub fn norm_call(c: &Call) -> Option<Call> {
    use Call::*;
    Some(match c {
        Draw(s) => {
            let t: String = s.chars().filter(|ch| !is_cc(*ch)).collect();
            if t.is_empty() {
                return None;
            }
            Draw(t)
        }
        InsertCharacters(n) => InsertCharacters(norm_opt(n)),
        CursorUp(n) => CursorUp(norm_opt(n)),
        CursorDown(n) => CursorDown(norm_opt(n)),
        CursorForward(n) => CursorForward(norm_opt(n)),
        CursorBack(n) => CursorBack(norm_opt(n)),
        CursorDown1(n) => CursorDown1(norm_opt(n)),
        CursorUp1(n) => CursorUp1(norm_opt(n)),
        CursorToColumn(n) => CursorToColumn(norm_opt(n)),
        CursorPosition(a, b) => CursorPosition(norm_opt(a), norm_opt(b)),
        EraseInDisplay(n) => EraseInDisplay(norm_opt(n)),
        EraseInLine(n) => EraseInLine(norm_opt(n)),
        InsertLines(n) => InsertLines(norm_opt(n)),
        DeleteLines(n) => DeleteLines(norm_opt(n)),
        DeleteCharacters(n) => DeleteCharacters(norm_opt(n)),
        EraseCharacters(n) => EraseCharacters(norm_opt(n)),
        ReportDeviceAttributes(n) => ReportDeviceAttributes(norm_opt(n)),
        CursorToLine(n) => CursorToLine(norm_opt(n)),
        ClearTabStop(n) => ClearTabStop(norm_opt(n)),
        SetMargins(a, b) => SetMargins(norm_opt(a), norm_opt(b)),
        other => other.clone(),
    })
}

/// merge adjacent text events after normalisation
pub fn norm_log(v: &[Call]) -> Vec<Call> {
    let mut out: Vec<Call> = Vec::new();
    for c in v {
        if let Some(n) = norm_call(c) {
            if let (Call::Draw(s), Some(Call::Draw(prev))) = (&n, out.last_mut()) {
                prev.push_str(s);
                continue;
            }
            out.push(n);
        }
    }
    out
}

#[derive(Clone, Debug, PartialEq, Eq)]
enum Tok {
    Ch(char),
    Ev(Call),
    Multi,
    Tail,
}

fn toks_of_call(c: &Call, out: &mut Vec<Tok>) {
    if let Some(n) = norm_call(c) {
        match n {
            Call::Draw(s) => out.extend(s.chars().map(Tok::Ch)),
            other => out.push(Tok::Ev(other)),
        }
    }
}

/// Compare an observed log with the expectation; None = conforms.  Text is compared character
/// by character (how it is split into draw() calls is not part of the contract).
pub fn conforms(exp: &[Exp], got: &[Call]) -> Option<String> {
    let mut g: Vec<Tok> = Vec::new();
    for c in got {
        toks_of_call(c, &mut g);
    }
    let mut e: Vec<Tok> = Vec::new();
    for x in exp {
        match x {
            Exp::Ev(c) => toks_of_call(c, &mut e),
            Exp::OscMulti => e.push(Tok::Multi),
            Exp::LenientTail => e.push(Tok::Tail),
        }
    }
    fn go(e: &[Tok], g: &[Tok], ei: usize, gi: usize, first_err: &mut Option<String>) -> bool {
        if ei == e.len() {
            if gi == g.len() {
                return true;
            }
            if first_err.is_none() {
                *first_err = Some(format!("unexpected extra item {:?}", g[gi]));
            }
            return false;
        }
        match &e[ei] {
            Tok::Tail => true,
            Tok::Multi => {
                // zero or more title/icon events (non-greedy, with backtracking)
                let mut k = gi;
                loop {
                    if go(e, g, ei + 1, k, first_err) {
                        return true;
                    }
                    if k < g.len() && matches!(g[k], Tok::Ev(Call::SetTitle(_)) | Tok::Ev(Call::SetIconName(_))) {
                        k += 1;
                    } else {
                        return false;
                    }
                }
            }
            t => {
                if gi >= g.len() {
                    if first_err.is_none() {
                        *first_err = Some(format!("expected item #{} {:?} but the observed log ended ({} items)", ei, t, g.len()));
                    }
                    return false;
                }
                if &g[gi] != t {
                    if first_err.is_none() {
                        *first_err = Some(format!("item #{}: expected {:?}, observed {:?}", ei, t, g[gi]));
                    }
                    return false;
                }
                go(e, g, ei + 1, gi + 1, first_err)
            }
        }
    }
    let mut err = None;
    if go(&e, &g, 0, 0, &mut err) {
        None
    } else {
        Some(err.unwrap_or_else(|| "logs differ".into()))
    }
}

/// merge adjacent text events, keeping every character (both sides come from the same recogniser)
pub fn norm_log_keep_cc(v: &[Call]) -> Vec<Call> {
    let mut out: Vec<Call> = Vec::new();
    for c in v {
        if let (Call::Draw(s), Some(Call::Draw(prev))) = (c, out.last_mut()) {
            prev.push_str(s);
            continue;
        }
        if matches!(c, Call::Draw(s) if s.is_empty()) {
            continue;
        }
        out.push(c.clone());
    }
    out
}
