//! placeholder (filled in with the C03 work)
