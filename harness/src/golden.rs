//! Golden character tables (produced by /verif/data/gen_tables.py, independent of /repo).

use std::sync::OnceLock;

pub struct Golden {
    pub lat1: [char; 256],
    pub vt100: [char; 256],
    pub ibmpc: [char; 256],
    pub vax42: [char; 256],
}

static G: OnceLock<Golden> = OnceLock::new();

fn table(v: &serde_json::Value, k: &str) -> [char; 256] {
    let arr = v[k].as_array().expect("golden table missing");
    assert_eq!(arr.len(), 256);
    let mut t = ['\0'; 256];
    for (i, e) in arr.iter().enumerate() {
        t[i] = char::from_u32(e.as_u64().unwrap() as u32).unwrap();
    }
    t
}

pub fn get() -> &'static Golden {
    G.get_or_init(|| {
        let v: serde_json::Value =
            serde_json::from_str(include_str!("../../data/golden_tables.json")).expect("golden json");
        Golden {
            lat1: table(&v, "B"),
            vt100: table(&v, "0"),
            ibmpc: table(&v, "U"),
            vax42: table(&v, "V"),
        }
    })
}

/// xterm 256-colour palette computed from its definition (C08 oracle; no table copied)
pub fn palette256(n: u32) -> u32 {
    const BASE: [u32; 16] = [
        0x000000, 0xcd0000, 0x00cd00, 0xcdcd00, 0x0000ee, 0xcd00cd, 0x00cdcd, 0xe5e5e5, 0x7f7f7f, 0xff0000,
        0x00ff00, 0xffff00, 0x5c5cff, 0xff00ff, 0x00ffff, 0xffffff,
    ];
    const STEPS: [u32; 6] = [0x00, 0x5f, 0x87, 0xaf, 0xd7, 0xff];
    if n < 16 {
        BASE[n as usize]
    } else if n < 232 {
        let i = n - 16;
        (STEPS[(i / 36 % 6) as usize] << 16) | (STEPS[(i / 6 % 6) as usize] << 8) | STEPS[(i % 6) as usize]
    } else {
        let v = 8 + 10 * (n - 232);
        (v << 16) | (v << 8) | v
    }
}
