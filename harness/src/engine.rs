//! Step-exploration engine shared by the Hoare-style monitors (C04-C08, C12-C14, C16, C18):
//! reach a state with a setup history, fork it once per candidate operation (direct API call or
//! escape sequence through a fresh parser), judge every listener call of the candidate against
//! the reference semantics applied to the implementation's own pre-state.

use serde_json::json;

use crate::call::Call;
use crate::core::{Case, Ctx, Viol};
use crate::refsem::{self, DECAWM, DECOM, DECSCNM, IRM, LNM};
use crate::snapshot::{snapshot, Snap};
use crate::sys::{panic_sig, run_ops, Ev, Op, Sys, PK};

#[derive(Clone, Copy, Debug, PartialEq, Eq)]
pub enum Path {
    Api,
    Parser,
}

/// how far a check judges a listener call
#[derive(Clone, Copy, Debug, PartialEq, Eq)]
pub enum Own {
    No,
    Full,
    /// judge, but report only mismatches of these generic clauses
    Only(&'static [&'static str]),
}

pub type Owns<'a> = &'a dyn Fn(&Call, &Snap) -> Own;

pub fn owner_is(prop: &'static str) -> impl Fn(&Call, &Snap) -> Own {
    move |c: &Call, _s: &Snap| if c.owner() == prop { Own::Full } else { Own::No }
}

/// C09 well-formedness of a snapshot
pub fn wellformed(s: &Snap) -> Vec<(&'static str, String)> {
    let mut v = Vec::new();
    if s.lines == 0 || s.columns == 0 {
        v.push(("geometry", format!("{}x{}", s.columns, s.lines)));
        return v;
    }
    if s.cy >= s.lines || s.cx > s.columns {
        v.push(("cursor-range", format!("cursor ({},{}) on a {}x{} screen", s.cx, s.cy, s.columns, s.lines)));
    }
    if let Some((t, b)) = s.margins {
        if !(t < b && b <= s.lines - 1) {
            v.push(("margins-range", format!("margins ({},{}) on {} lines", t, b, s.lines)));
        }
    }
    if let Some(m) = s.dirty.iter().next_back() {
        if *m >= s.lines {
            v.push(("dirty-range", format!("dirty index {} with {} lines", m, s.lines)));
        }
    }
    if s.cattr.fg.is_bad() || s.cattr.bg.is_bad() {
        v.push(("colour", format!("cursor rendition {}", s.cattr.show())));
    }
    'outer: for (y, row) in s.grid.iter().enumerate() {
        for (x, c) in row.iter().enumerate() {
            if c.attr.fg.is_bad() || c.attr.bg.is_bad() {
                v.push(("colour", format!("cell({},{}) {}", y, x, c.show())));
                break 'outer;
            }
        }
    }
    v
}

fn cx_class(s: &Snap) -> &'static str {
    if s.cx >= s.columns {
        "pend"
    } else if s.cx == 0 {
        if s.columns == 1 {
            "only"
        } else {
            "0"
        }
    } else if s.cx == s.columns - 1 {
        "last"
    } else {
        "mid"
    }
}

fn cy_class(s: &Snap) -> &'static str {
    let (t, b) = s.region();
    if s.cy < t {
        "above"
    } else if s.cy > b {
        "below"
    } else if s.cy == t && s.cy == b {
        "only"
    } else if s.cy == t {
        "top"
    } else if s.cy == b {
        "bot"
    } else {
        "mid"
    }
}

fn geom_class(s: &Snap) -> &'static str {
    if s.columns == 1 && s.lines == 1 {
        "1x1"
    } else if s.columns == 1 {
        "1col"
    } else if s.lines == 1 {
        "1row"
    } else if s.columns <= 10 && s.lines <= 6 {
        "small"
    } else {
        "large"
    }
}

/// coarse class used in violation signatures
pub fn sig_bucket(pre: &Snap, call: &Call) -> String {
    format!("{}|x={}|y={}", call.param_class(pre.lines, pre.columns), cx_class(pre), cy_class(pre))
}

/// fine state bucket used for counting distinct covered cases
pub fn state_bucket(pre: &Snap) -> String {
    let row = &pre.grid[pre.cy.min(pre.lines - 1) as usize];
    let dflt = pre.default_cell();
    let blank_row = row.iter().all(|c| *c == dflt);
    let wide_near = {
        let x = pre.cx.min(pre.columns - 1) as usize;
        let lo = x.saturating_sub(1);
        let hi = (x + 1).min(row.len() - 1);
        row[lo..=hi].iter().any(|c| c.text.is_empty() || c.text.chars().next().map(|ch| unicode_width::UnicodeWidthChar::width(ch) == Some(2)).unwrap_or(false))
    };
    format!(
        "{}|x={}|y={}|m={}|om={}|aw={}|irm={}|lnm={}|scnm={}|g1={}|blank={}|wide={}|sv={}",
        geom_class(pre),
        cx_class(pre),
        cy_class(pre),
        pre.margins.is_some() as u8,
        pre.has_mode(DECOM) as u8,
        pre.has_mode(DECAWM) as u8,
        pre.has_mode(IRM) as u8,
        pre.has_mode(LNM) as u8,
        pre.has_mode(DECSCNM) as u8,
        pre.g1_active as u8,
        blank_row as u8,
        wide_near as u8,
        pre.saved.len().min(2)
    )
}

pub fn record_state_features(cx: &mut Ctx, pre: &Snap) {
    let s = &mut cx.stats;
    if pre.cx >= pre.columns {
        s.feature("pending-wrap");
    }
    if pre.margins.is_some() {
        s.feature("margins");
    }
    if pre.has_mode(DECOM) {
        s.feature("DECOM");
    }
    if !pre.has_mode(DECAWM) {
        s.feature("DECAWM-off");
    }
    if pre.has_mode(IRM) {
        s.feature("IRM");
    }
    if pre.has_mode(LNM) {
        s.feature("LNM");
    }
    if pre.has_mode(DECSCNM) {
        s.feature("DECSCNM");
    }
    if pre.g1_active {
        s.feature("G1-active");
    }
    if !pre.saved.is_empty() {
        s.feature("saved-cursor");
    }
    let dflt = pre.default_cell();
    if pre.grid.iter().any(|r| r.iter().all(|c| *c == dflt)) {
        s.feature("blank-row");
    }
    if pre.grid.iter().any(|r| r.iter().any(|c| c.text.is_empty())) {
        s.feature("wide-char");
    }
    if pre.columns == 1 || pre.lines == 1 {
        s.feature("degenerate-geometry");
    }
}

/// Judge the listener calls of one executed candidate.  `pre` is the state before the first
/// event.  Only events owned by `prop` are judged (all events keep the pre-state chain going).
/// Returns the number of judged events.
pub fn judge_events(
    cx: &mut Ctx,
    prop: &str,
    owns: Owns,
    pre: &Snap,
    evs: &[Ev],
    path: Path,
    mk_case: &dyn Fn() -> Case,
) -> usize {
    let mut cur = pre.clone();
    let mut judged = 0;
    for ev in evs {
        let post = match &ev.post {
            Some(p) => p,
            None => break, // the call did not return: reported by the caller as a panic
        };
        let mut own = owns(&ev.call, &cur);
        if own != Own::No && wellformed(&cur).iter().any(|w| w.0 == "cursor-range" || w.0 == "margins-range" || w.0 == "geometry") {
            // the reference semantics are only defined on well-formed pre-states; whatever call
            // produced this one has been (or will be) reported by the check that owns it
            cx.stats.count("steps_skipped_illformed_pre", 1);
            own = Own::No;
        }
        if own != Own::No {
            judged += 1;
            let v = refsem::judge(&ev.call, &cur, post);
            let nontriv = refsem::nontrivial(&ev.call, &cur, post);
            let kind = ev.call.kind();
            let pcls = ev.call.param_class(cur.lines, cur.columns);
            let key = format!("{}|{}|{}|{:?}", state_bucket(&cur), kind, pcls, path);
            cx.stats.eval(&key, nontriv);
            cx.stats.op(kind);
            if v.lenient {
                cx.stats.count("lenient_steps", 1);
            }
            if v.skipped {
                cx.stats.count("skipped_unspecified", 1);
            }
            cx.stats.clause("step-judged");
            cx.stats.sample(&format!("{}|{}", kind, pcls), 10, || {
                json!({"pre": cur.render(), "call": format!("{:?}", ev.call), "path": format!("{:?}", path), "post": post.render()})
            });
            for m in v.mismatches {
                if let Own::Only(cl) = own {
                    if !cl.contains(&m.clause) {
                        continue;
                    }
                }
                let case = mk_case();
                cx.violation(Viol {
                    prop: prop.to_string(),
                    clause: m.clause.to_string(),
                    op: kind.to_string(),
                    bucket: sig_bucket(&cur, &ev.call),
                    detail: format!("{:?} from state\n{}{}", ev.call, cur.render(), m.detail),
                    case,
                });
            }
            // the post-state of a judged step must be well-formed (only what this step broke)
            let pre_bad: Vec<&'static str> = wellformed(&cur).into_iter().map(|x| x.0).collect();
            for (cl, d) in wellformed(post) {
                if pre_bad.contains(&cl) || matches!(own, Own::Only(_)) {
                    continue;
                }
                let case = mk_case();
                cx.violation(Viol {
                    prop: prop.to_string(),
                    clause: format!("illformed-post/{}", cl),
                    op: kind.to_string(),
                    bucket: sig_bucket(&cur, &ev.call),
                    detail: format!("{:?}: {}", ev.call, d),
                    case,
                });
            }
        }
        cur = post.clone();
    }
    judged
}

/// A candidate: a short op sequence applied to a fork of the reached state.
pub struct Cand {
    pub ops: Vec<Op>,
}

impl Cand {
    pub fn api(c: Call) -> Cand {
        Cand { ops: vec![Op::Api(c)] }
    }
    /// the escape sequence that makes the parser deliver `c`, if any
    pub fn seq(c: &Call) -> Option<Cand> {
        c.to_seq().map(|s| Cand { ops: vec![Op::Feed(s)] })
    }
    pub fn both(c: Call) -> Vec<Cand> {
        let mut v = Vec::new();
        if let Some(s) = Cand::seq(&c) {
            v.push(s);
        }
        v.push(Cand::api(c));
        v
    }
    pub fn path(&self) -> Path {
        if self.ops.iter().any(|o| matches!(o, Op::Feed(_) | Op::FeedBytes(_))) {
            Path::Parser
        } else {
            Path::Api
        }
    }
}

/// Run the setup; returns the reached Sys (recording off) or None if it panicked / is ill-formed.
pub fn reach(cx: &mut Ctx, columns: u32, lines: u32, setup: &[Op]) -> Option<(Sys, Snap)> {
    let mut sys = Sys::new(columns, lines, PK::Chars);
    sys.set_recording(false, false);
    if run_ops(&mut sys, setup).is_err() {
        cx.stats.count("setup_aborted", 1);
        return None;
    }
    let pre = sys.snap();
    if !wellformed(&pre).is_empty() {
        cx.stats.count("setup_illformed", 1);
        return None;
    }
    Some((sys, pre))
}

/// Fork `base` once per candidate and judge. `prop` = property id; a panic in the candidate is a
/// violation of `prop` with clause `panic`.
pub fn fan_out(cx: &mut Ctx, prop: &str, owns: Owns, columns: u32, lines: u32, setup: &[Op], base: &Sys, pre: &Snap, cands: &[Cand]) {
    record_state_features(cx, pre);
    cx.stats.geoms.insert(format!("{}x{}", columns, lines));
    for cand in cands {
        let path = cand.path();
        let mk_case = || {
            let mut c = Case::new(prop, "step", columns, lines, PK::Chars);
            c.setup = setup.to_vec();
            c.ops = cand.ops.clone();
            c
        };
        cx.journal_case(&mk_case);
        let scr = base.fork_screen();
        let mut sys = Sys::from_screen(scr, if path == Path::Parser { PK::Chars } else { PK::None });
        let mut r = Ok(());
        for op in &cand.ops {
            r = sys.try_apply(op);
            if r.is_err() {
                break;
            }
        }
        let evs = sys.take_events();
        let judged = judge_events(cx, prop, owns, pre, &evs, path, &mk_case);
        let ok = r.is_ok();
        if let Err(p) = r {
            report_panic(cx, prop, owns, pre, &evs, &p, &mk_case);
        } else if judged == 0 && path == Path::Parser {
            cx.stats.count("parser_candidates_without_owned_event", 1);
        }
        // parser path: the calls the check owns must be the ones the documented grammar defines
        // for the text that was fed (operation, parameters, private flag) - the per-call judgement
        // above cannot see a wrong parameter list, it only sees what was delivered
        if ok && path == Path::Parser && cand.ops.iter().all(|o| matches!(o, Op::Feed(_))) {
            let mut rp = crate::refparser::RefParser::new(true);
            for o in &cand.ops {
                if let Op::Feed(t) = o {
                    rp.feed(t);
                }
            }
            if rp.out.iter().all(|e| matches!(e, crate::refparser::Exp::Ev(_))) {
                let keep = |c: &Call| !matches!(c, Call::Draw(_)) && owns(c, pre) == Own::Full;
                let want: Vec<Call> = rp
                    .out
                    .iter()
                    .filter_map(|e| if let crate::refparser::Exp::Ev(c) = e { Some(c) } else { None })
                    .filter(|c| keep(c))
                    .filter_map(|c| crate::refparser::norm_call(c))
                    .collect();
                let got: Vec<Call> = evs.iter().map(|e| &e.call).filter(|c| keep(c)).filter_map(|c| crate::refparser::norm_call(c)).collect();
                cx.stats.clause("dispatch-compared");
                if want != got {
                    let kind = want.first().or(got.first()).map(|c| c.kind()).unwrap_or("feed");
                    cx.violation(Viol {
                        prop: prop.to_string(),
                        clause: "dispatch".into(),
                        op: kind.to_string(),
                        bucket: format!("n{}", cand.ops.len().min(3)),
                        detail: format!("fed {:?}: the grammar defines the calls {:?}, the listener received {:?}", cand.ops, want, got),
                        case: mk_case(),
                    });
                }
            }
        }
    }
}

/// a panic while executing a candidate: a violation of `prop` if the call in flight is one the
/// check judges (or the panic happened outside any listener call, i.e. in the parser itself)
pub fn report_panic(cx: &mut Ctx, prop: &str, owns: Owns, pre: &Snap, evs: &[Ev], p: &crate::sys::PanicInfo, mk_case: &dyn Fn() -> Case) {
    let inflight = evs.iter().find(|e| e.post.is_none()).map(|e| e.call.clone());
    // state just before the call in flight
    let before = evs.iter().rev().filter_map(|e| e.post.as_ref()).next().unwrap_or(pre);
    let (kind, mine) = match &inflight {
        Some(c) => (c.kind(), owns(c, before) != Own::No),
        None => ("feed", true),
    };
    cx.stats.clause("panic-observed");
    if mine {
        cx.violation(Viol {
            prop: prop.to_string(),
            clause: "panic".into(),
            op: kind.to_string(),
            bucket: panic_sig(p),
            detail: format!("panic '{}' at {} during {:?} from state\n{}", p.msg, p.loc, inflight, before.render()),
            case: mk_case(),
        });
    }
}

/// Replay a step case verbosely (used by `replay` for all engine-based checks).
pub fn replay_step(cx: &mut Ctx, prop: &str, owns: Owns, case: &Case) {
    let mut sys = Sys::new(case.columns, case.lines, PK::Chars);
    sys.set_recording(false, false);
    if let Err((i, p)) = run_ops(&mut sys, &case.setup) {
        println!("setup op {} panicked: {} at {}", i, p.msg, p.loc);
        return;
    }
    let pre = sys.snap();
    if cx.verbose {
        println!("state reached by setup:\n{}", pre.render());
    }
    let scr = sys.fork_screen();
    let is_feed = case.ops.iter().any(|o| matches!(o, Op::Feed(_) | Op::FeedBytes(_)));
    let mut s2 = Sys::from_screen(scr, if is_feed { PK::Chars } else { PK::None });
    let mut res = Ok(());
    for op in &case.ops {
        res = s2.try_apply(op);
        if res.is_err() {
            break;
        }
    }
    let evs = s2.take_events();
    let c2 = case.clone();
    let mk = move || c2.clone();
    judge_events(cx, prop, owns, &pre, &evs, if is_feed { Path::Parser } else { Path::Api }, &mk);
    if let Err(p) = res {
        report_panic(cx, prop, owns, &pre, &evs, &p, &mk);
    }
    if cx.verbose {
        println!("state after the judged ops:\n{}", snapshot(&s2.t().scr).render());
    }
}

/// Judge every listener call (owned by the check) of a whole history executed on one Screen with
/// one parser: states are the ones long realistic histories reach, and sequences inside a single
/// feed() are observed call by call.
pub fn judge_session(cx: &mut Ctx, prop: &str, owns: Owns, columns: u32, lines: u32, ops: &[Op]) {
    let mut sys = Sys::new(columns, lines, PK::Bytes);
    cx.stats.geoms.insert(format!("{}x{}", columns, lines));
    let mut pre = sys.snap();
    for (i, op) in ops.iter().enumerate() {
        let mk_case = || {
            let mut c = Case::new(prop, "session", columns, lines, PK::Bytes);
            c.ops = ops[..=i].to_vec();
            c
        };
        cx.journal_case(&mk_case);
        let r = sys.try_apply(op);
        let evs = sys.take_events();
        // only the last op of a replayed prefix is new; earlier ones were judged before - but a
        // replay judges everything again, which is harmless (same verdicts)
        judge_events(cx, prop, owns, &pre, &evs, Path::Parser, &mk_case);
        cx.stats.count("session_ops", 1);
        if let Err(p) = r {
            report_panic(cx, prop, owns, &pre, &evs, &p, &mk_case);
            return;
        }
        pre = match evs.iter().rev().filter_map(|e| e.post.clone()).next() {
            Some(s) => s,
            None => sys.snap(),
        };
        if matches!(op, Op::ClearDirty) {
            pre = sys.snap();
        }
    }
}
