//! Parent/worker orchestration, watchdog, aggregation, evidence, known-findings matching,
//! replay and shrinking (DESIGN §3.7-3.9, §7).

use std::collections::BTreeMap;
use std::fs;
use std::path::{Path, PathBuf};
use std::process::{Child, Command, Stdio};
use std::time::{Duration, Instant};

use serde_json::{json, Value};

use crate::checks::{self, Check};
use crate::core::{Case, Ctx, Stats, Tier, Viol};
use crate::rng::hash64;

pub fn verif_dir() -> PathBuf {
    std::env::var("VERIF_DIR").map(PathBuf::from).unwrap_or_else(|_| PathBuf::from("/verif"))
}

fn work_dir(id: &str) -> PathBuf {
    let d = verif_dir().join("work").join(id);
    let _ = fs::create_dir_all(&d);
    d
}

pub struct RunOpts {
    pub id: String,
    pub tier: Tier,
    pub seed: u64,
    pub jobs: u32,
    pub budget: Duration,
}

pub fn default_budget(tier: Tier) -> Duration {
    if let Ok(v) = std::env::var("VERIF_BUDGET") {
        if let Ok(s) = v.parse::<u64>() {
            return Duration::from_secs(s);
        }
    }
    match tier {
        Tier::Quick => Duration::from_secs(18),
        Tier::Thorough => Duration::from_secs(300),
    }
}

// ---------------------------------------------------------------------------------------------
// worker
// ---------------------------------------------------------------------------------------------

pub fn worker_main(id: &str, tier: Tier, seed: u64, shard: u32, nshards: u32, budget: Duration, out: &Path, only_group: Option<u64>) -> i32 {
    let check = match checks::by_id(id) {
        Some(c) => c,
        None => {
            eprintln!("unknown check {}", id);
            return 2;
        }
    };
    crate::sys::install_panic_hook();
    let mut cx = Ctx::new(tier, seed, shard, nshards, budget);
    cx.only_group = only_group;
    let jpath = out.with_extension("journal");
    cx.journal = fs::OpenOptions::new().create(true).write(true).truncate(true).open(&jpath).ok();
    cx.case_journal = Some(out.with_extension("case"));
    // a panic of the harness itself is a harness error (exit 3 => inconclusive), never a verdict
    let r = std::panic::catch_unwind(std::panic::AssertUnwindSafe(|| check.shard(&mut cx)));
    if r.is_err() {
        if let Some((msg, loc, true)) = crate::sys::uncaught_panic() {
            // the code under test panicked where no operation was being judged (constructing a
            // screen or a parser, running a setup): not a harness error. Exit 4: C01 treats it as
            // a crash of this group (isolated re-runs, witness), the other checks cannot evaluate
            eprintln!("MEMTERM-PANIC outside a judged operation in group {}: {} at {}", cx.group, msg, loc);
            return 4;
        }
        eprintln!("HARNESS-ERROR: the monitor itself panicked in group {}", cx.group);
        return 3;
    }
    // shrink new violations (bounded in runs and in time; journalled as group 0 so that a stall
    // here can never be mistaken for a hang of the system under test)
    if let Some(f) = cx.journal.as_mut() {
        use std::io::{Seek, SeekFrom, Write};
        let _ = f.seek(SeekFrom::Start(0));
        let _ = f.write_all(format!("0 {:<60}\n", "shrinking").as_bytes());
    }
    let sigs: Vec<String> = cx.stats.viols.keys().cloned().collect();
    let shrink_start = Instant::now();
    for sig in sigs.iter().take(12) {
        if only_group.is_some() || shrink_start.elapsed() > Duration::from_secs(8) {
            break;
        }
        let v = cx.stats.viols.get(sig).unwrap().0.clone();
        let small = shrink(check, &v, 120);
        if small.case.size() < v.case.size() {
            cx.stats.viols.get_mut(sig).unwrap().0 = small;
        }
    }
    let js = serde_json::to_string(&cx.stats).unwrap();
    if fs::write(out, js).is_err() {
        return 2;
    }
    0
}

/// does replaying `case` reproduce a violation with signature `sig`?
fn reproduces(check: &dyn Check, case: &Case, sig: &str) -> Option<Viol> {
    let mut cx = Ctx::new(Tier::Quick, 1, 0, 1, Duration::from_secs(20));
    check.replay(case, &mut cx);
    cx.stats.viols.get(sig).map(|e| e.0.clone())
}

/// delta-debugging over the setup and op lists (drop elements while the same signature persists)
pub fn shrink(check: &dyn Check, v: &Viol, max_runs: usize) -> Viol {
    let sig = v.sig();
    let mut best = v.clone();
    let mut runs = 0;
    // confirm first
    match reproduces(check, &best.case, &sig) {
        Some(_) => {}
        None => return best,
    }
    let t0 = Instant::now();
    let mut changed = true;
    while changed && runs < max_runs && t0.elapsed() < Duration::from_secs(3) {
        changed = false;
        for which in 0..2 {
            let len = if which == 0 { best.case.setup.len() } else { best.case.ops.len() };
            let min_len = if which == 0 { 0 } else { 1 };
            let mut chunk = (len / 2).max(1);
            while chunk >= 1 && runs < max_runs {
                let mut i = 0;
                loop {
                    let cur_len = if which == 0 { best.case.setup.len() } else { best.case.ops.len() };
                    if i >= cur_len || cur_len <= min_len || runs >= max_runs || t0.elapsed() > Duration::from_secs(3) {
                        break;
                    }
                    let end = (i + chunk).min(cur_len);
                    if cur_len - (end - i) < min_len {
                        i += chunk;
                        continue;
                    }
                    let mut cand = best.case.clone();
                    if which == 0 {
                        cand.setup.drain(i..end);
                    } else {
                        cand.ops.drain(i..end);
                    }
                    runs += 1;
                    if let Some(nv) = reproduces(check, &cand, &sig) {
                        best = nv;
                        best.case = cand;
                        changed = true;
                    } else {
                        i += chunk;
                    }
                }
                if chunk == 1 {
                    break;
                }
                chunk /= 2;
            }
        }
    }
    best
}

// ---------------------------------------------------------------------------------------------
// known findings
// ---------------------------------------------------------------------------------------------

pub struct Known {
    pub open: Vec<(String, String, String)>, // (property, signature, what)
}

pub fn load_known() -> Known {
    let p = verif_dir().join("known_findings.json");
    let mut k = Known { open: Vec::new() };
    if let Ok(s) = fs::read_to_string(&p) {
        if let Ok(v) = serde_json::from_str::<Value>(&s) {
            if let Some(arr) = v["open"].as_array() {
                for e in arr {
                    k.open.push((
                        e["property"].as_str().unwrap_or("").to_string(),
                        e["signature"].as_str().unwrap_or("").to_string(),
                        e["what"].as_str().unwrap_or("").to_string(),
                    ));
                }
            }
        }
    }
    k
}

// ---------------------------------------------------------------------------------------------
// parent
// ---------------------------------------------------------------------------------------------

struct Worker {
    shard: u32,
    child: Child,
    out: PathBuf,
    done: Option<std::process::ExitStatus>,
}

fn spawn_worker(o: &RunOpts, shard: u32, out: &Path, only_group: Option<u64>, budget: Duration) -> std::io::Result<Child> {
    let exe = std::env::current_exe()?;
    let mut cmd = Command::new(exe);
    cmd.arg("worker")
        .arg(&o.id)
        .arg("--tier")
        .arg(o.tier.name())
        .arg("--seed")
        .arg(o.seed.to_string())
        .arg("--shard")
        .arg(shard.to_string())
        .arg("--nshards")
        .arg(o.jobs.to_string())
        .arg("--budget")
        .arg(budget.as_secs().to_string())
        .arg("--out")
        .arg(out);
    if let Some(g) = only_group {
        cmd.arg("--only-group").arg(g.to_string());
    }
    let err = fs::File::create(out.with_extension("err"))?;
    cmd.stdin(Stdio::null()).stdout(Stdio::null()).stderr(Stdio::from(err));
    cmd.spawn()
}

fn read_journal(out: &Path) -> Option<(u64, String)> {
    let s = fs::read_to_string(out.with_extension("journal")).ok()?;
    let line = s.lines().next()?;
    let mut it = line.splitn(2, ' ');
    let g = it.next()?.parse().ok()?;
    Some((g, it.next().unwrap_or("").trim().to_string()))
}

fn describe_status(st: &std::process::ExitStatus) -> String {
    use std::os::unix::process::ExitStatusExt;
    if let Some(s) = st.signal() {
        format!("killed by signal {}", s)
    } else {
        format!("exit code {:?}", st.code())
    }
}

/// exit codes: 0 held / only known findings; 1 violation; 2 inconclusive or harness error
pub fn run_main(o: &RunOpts) -> i32 {
    let t0 = Instant::now();
    let check = match checks::by_id(&o.id) {
        Some(c) => c,
        None => {
            eprintln!("unknown check {}", o.id);
            return 2;
        }
    };
    let wd = work_dir(&o.id);
    let mut workers = Vec::new();
    for shard in 0..o.jobs {
        let out = wd.join(format!("shard_{}.json", shard));
        let _ = fs::remove_file(&out);
        match spawn_worker(o, shard, &out, None, o.budget) {
            Ok(child) => workers.push(Worker { shard, child, out, done: None }),
            Err(e) => {
                eprintln!("cannot spawn worker: {}", e);
                return 2;
            }
        }
    }
    // watchdog: generous wall limit (time is never a verdict by itself)
    let limit = o.budget * 4 + Duration::from_secs(120);
    // progress watchdog: a worker whose journalled group has not changed for `stall` is stopped
    // (and then re-run alone before anything is concluded)
    let stall = Duration::from_secs(std::env::var("VERIF_STALL").ok().and_then(|v| v.parse().ok()).unwrap_or(90));
    let mut progress: Vec<(String, Instant)> = workers.iter().map(|_| (String::new(), Instant::now())).collect();
    let mut last_poll = Instant::now();
    let mut timed_out: Vec<u32> = Vec::new();
    loop {
        let mut running = 0;
        for w in workers.iter_mut() {
            if w.done.is_none() && !timed_out.contains(&w.shard) {
                match w.child.try_wait() {
                    Ok(Some(st)) => w.done = Some(st),
                    Ok(None) => running += 1,
                    Err(_) => {}
                }
            }
        }
        if running == 0 {
            break;
        }
        if last_poll.elapsed() > Duration::from_secs(1) {
            last_poll = Instant::now();
            for (i, w) in workers.iter_mut().enumerate() {
                if w.done.is_some() || timed_out.contains(&w.shard) {
                    continue;
                }
                let cur = fs::read_to_string(w.out.with_extension("journal")).unwrap_or_default();
                if cur != progress[i].0 {
                    progress[i] = (cur, Instant::now());
                } else if progress[i].1.elapsed() > stall && !progress[i].0.starts_with("0 ") {
                    let _ = w.child.kill();
                    let _ = w.child.wait();
                    timed_out.push(w.shard);
                }
            }
        }
        if t0.elapsed() > limit {
            for w in workers.iter_mut() {
                if w.done.is_none() {
                    let _ = w.child.kill();
                    let _ = w.child.wait();
                    timed_out.push(w.shard);
                }
            }
            break;
        }
        std::thread::sleep(Duration::from_millis(50));
    }

    let mut merged = Stats::default();
    let mut inconclusive: Vec<String> = Vec::new();
    let mut crash_viols: Vec<Viol> = Vec::new();
    let mut repro_done = 0;
    let mut not_reproduced: Vec<String> = Vec::new();
    for w in workers.iter() {
        let crashed = timed_out.contains(&w.shard) || w.done.map(|s| !s.success()).unwrap_or(true);
        let harness_err = w.done.map(|s| s.code() == Some(3) || s.code() == Some(2)).unwrap_or(false);
        // exit 4 = the code under test panicked outside a judged operation: C01's business ("no
        // panic for every screen of at least 1x1 cells ..."), everyone else cannot evaluate
        let sut_panic = w.done.map(|s| s.code() == Some(4)).unwrap_or(false);
        if crashed && sut_panic && o.id != "C01" {
            let tail = fs::read_to_string(w.out.with_extension("err")).unwrap_or_default();
            inconclusive.push(format!("worker {}: memterm panicked outside a judged operation, nothing could be evaluated (see C01): {}", w.shard, tail.lines().last().unwrap_or("")));
        } else if crashed && harness_err {
            let tail = fs::read_to_string(w.out.with_extension("err")).unwrap_or_default();
            inconclusive.push(format!("worker {} stopped with a harness error: {}", w.shard, tail.lines().last().unwrap_or("")));
        } else if crashed {
            let how = if timed_out.contains(&w.shard) {
                "exceeded the watchdog".to_string()
            } else {
                describe_status(&w.done.unwrap())
            };
            // attribute to the journalled group and re-run it alone
            match read_journal(&w.out) {
                Some((0, label)) => inconclusive.push(format!("worker {} {} in harness phase '{}'", w.shard, how, label)),
                Some((g, label)) => {
                    if repro_done >= 2 {
                        not_reproduced.push(format!("worker {} {} in group {} ({}) - not re-run (two other crashed workers were)", w.shard, how, g, label));
                        continue;
                    }
                    repro_done += 1;
                    let mut fails = 0;
                    let mut last = String::new();
                    // three isolated re-runs of that group, side by side
                    let mut kids: Vec<Child> = Vec::new();
                    for attempt in 0..3 {
                        let out = wd.join(format!("repro_{}_{}.json", w.shard, attempt));
                        let _ = fs::remove_file(&out);
                        let _ = fs::remove_file(out.with_extension("case"));
                        if let Ok(ch) = spawn_worker(o, w.shard, &out, Some(g), Duration::from_secs(20)) {
                            kids.push(ch);
                        }
                    }
                    let t = Instant::now();
                    let mut sts: Vec<Option<std::process::ExitStatus>> = kids.iter().map(|_| None).collect();
                    while t.elapsed() < Duration::from_secs(60) && sts.iter().any(|s| s.is_none()) {
                        for (i, ch) in kids.iter_mut().enumerate() {
                            if sts[i].is_none() {
                                if let Ok(Some(s)) = ch.try_wait() {
                                    sts[i] = Some(s);
                                }
                            }
                        }
                        std::thread::sleep(Duration::from_millis(50));
                    }
                    for (i, ch) in kids.iter_mut().enumerate() {
                        match sts[i] {
                            None => {
                                let _ = ch.kill();
                                let _ = ch.wait();
                                fails += 1;
                                last = "hang (no return within 60 s, 3 isolated runs)".into();
                            }
                            Some(s) if !s.success() && s.code() != Some(3) && s.code() != Some(2) => {
                                fails += 1;
                                last = describe_status(&s);
                            }
                            Some(_) => {}
                        }
                    }
                    if kids.len() < 3 {
                        fails = 0;
                    }
                    if fails == 3 {
                        // the isolated re-runs journal every case: the last one is the witness
                        let mut case = Case::new(&o.id, "group", 0, 0, crate::sys::PK::None);
                        for attempt in 0..3 {
                            let cj = wd.join(format!("repro_{}_{}.case", w.shard, attempt));
                            if let Ok(txt) = fs::read_to_string(&cj) {
                                if let Ok(c) = serde_json::from_str::<Case>(&txt) {
                                    case = c;
                                    break;
                                }
                            }
                        }
                        if case.kind == "group" {
                            case.aux = json!({"tier": o.tier.name(), "seed": o.seed, "shard": w.shard, "nshards": o.jobs, "group": g, "label": label});
                        }
                        let errtail = if sut_panic {
                            let t = fs::read_to_string(wd.join(format!("repro_{}_0.err", w.shard))).or_else(|_| fs::read_to_string(w.out.with_extension("err"))).unwrap_or_default();
                            format!("; {}", t.lines().last().unwrap_or(""))
                        } else {
                            String::new()
                        };
                        crash_viols.push(Viol {
                            prop: o.id.clone(),
                            clause: if last.starts_with("hang") { "hang".into() } else if sut_panic { "panic".into() } else { "abort".into() },
                            op: "process".into(),
                            bucket: label.split_whitespace().next().unwrap_or("").to_string(),
                            detail: format!("worker {} {}; group {} ({}) reproduces alone: {}{}", w.shard, how, g, label, last, errtail),
                            case,
                        });
                    } else {
                        inconclusive.push(format!("worker {} {} but group {} did not reproduce ({} of 3)", w.shard, how, g, fails));
                    }
                }
                None => inconclusive.push(format!("worker {} {} (no journal)", w.shard, how)),
            }
            // still merge whatever it wrote (nothing, usually)
        }
        if let Ok(s) = fs::read_to_string(&w.out) {
            match serde_json::from_str::<Stats>(&s) {
                Ok(st) => merged.merge(st),
                Err(e) => inconclusive.push(format!("worker {} result unreadable: {}", w.shard, e)),
            }
        } else if !crashed {
            inconclusive.push(format!("worker {} wrote no result", w.shard));
        }
    }
    if crash_viols.is_empty() {
        inconclusive.extend(not_reproduced);
    }
    for v in crash_viols {
        merged.violation(v);
    }

    // post-merge analysis hooks
    check.finish(o, &mut merged, &mut inconclusive);
    // sanitizer slices are run by /verif/check before the main run; their verdicts arrive here
    {
        let p = wd.join("sanitizers.json");
        if let Ok(s) = fs::read_to_string(&p) {
            if let Ok(Value::Array(arr)) = serde_json::from_str::<Value>(&s) {
                for e in arr {
                    merged.sanitizer.push(e.clone());
                    let tool = e["tool"].as_str().unwrap_or("?").to_string();
                    match e["verdict"].as_str().unwrap_or("") {
                        "report" => {
                            let mut case = Case::new(&o.id, "group", 0, 0, crate::sys::PK::None);
                            case.aux = e.clone();
                            merged.violation(Viol {
                                prop: o.id.clone(),
                                clause: "sanitizer".into(),
                                op: tool.clone(),
                                bucket: e["first_frame"].as_str().unwrap_or("").to_string(),
                                detail: format!("{} reported: {}", tool, e["summary"].as_str().unwrap_or("")),
                                case,
                            });
                        }
                        "clean" => {}
                        other => inconclusive.push(format!("sanitizer slice {} inconclusive: {} {}", tool, other, e["summary"].as_str().unwrap_or(""))),
                    }
                }
            }
            let _ = fs::remove_file(&p);
        }
    }

    // required coverage => otherwise inconclusive
    for req in check.required(o.tier) {
        let n = merged.clause_evals.get(req).cloned().unwrap_or(0)
            + merged.features.get(req).cloned().unwrap_or(0)
            + merged.counters.get(req).cloned().unwrap_or(0);
        if n == 0 {
            inconclusive.push(format!("required coverage item '{}' was never observed", req));
        }
    }
    if merged.evaluations == 0 {
        inconclusive.push("no case was evaluated".into());
    }

    // classify violations
    let known = load_known();
    let mut unknown: Vec<(String, Viol, u64)> = Vec::new();
    let mut known_seen: BTreeMap<String, (String, u64)> = BTreeMap::new();
    for (sig, (v, n)) in merged.viols.iter() {
        if let Some(k) = known.open.iter().find(|k| &k.1 == sig && k.0 == o.id) {
            known_seen.insert(sig.clone(), (k.2.clone(), *n));
        } else {
            unknown.push((sig.clone(), v.clone(), *n));
        }
    }
    for (sig, (what, n)) in &known_seen {
        println!("KNOWN-FINDING: property={} {} [{}] (observed {} times)", o.id, what, sig, n);
    }
    let rdir = verif_dir().join("replays");
    let _ = fs::create_dir_all(&rdir);
    let mut replay_paths = Vec::new();
    for (i, (sig, v, n)) in unknown.iter().enumerate() {
        if i >= 40 {
            println!("... and {} more violation signatures (not written out)", unknown.len() - i);
            break;
        }
        let name = format!("{}-{:016x}.json", o.id, hash64(sig));
        let p = rdir.join(name);
        let body = json!({"signature": sig, "count": n, "detail": v.detail, "violation": v});
        let _ = fs::write(&p, serde_json::to_string_pretty(&body).unwrap());
        replay_paths.push(p.clone());
        println!("VIOLATION property={} replay={}", o.id, p.display());
        println!("  signature: {}", sig);
        for l in v.detail.lines().take(14) {
            println!("  | {}", l);
        }
    }

    // evidence
    let wall = t0.elapsed().as_secs_f64();
    let ev = evidence_json(check, o, &merged, wall, unknown.len(), &known_seen, &inconclusive);
    let edir = verif_dir().join("evidence");
    let _ = fs::create_dir_all(&edir);
    let _ = fs::write(edir.join(format!("{}.json", o.id)), serde_json::to_string_pretty(&ev).unwrap() + "\n");

    println!(
        "{} {} seed={} : {} evaluations, {} distinct non-trivial classes, {} violation signature(s) ({} known), {:.1}s{}",
        o.id,
        o.tier.name(),
        o.seed,
        merged.evaluations,
        merged.nontrivial.len(),
        merged.viols.len(),
        known_seen.len(),
        wall,
        if merged.budget_hit { " [time budget reached]" } else { "" }
    );
    for (k, v) in merged.clause_evals.iter() {
        println!("  clause {:<28} {}", k, v);
    }
    if !unknown.is_empty() {
        return 1;
    }
    if !inconclusive.is_empty() {
        for i in &inconclusive {
            println!("INCONCLUSIVE: {}", i);
        }
        return 2;
    }
    0
}

fn evidence_json(
    check: &dyn Check,
    o: &RunOpts,
    s: &Stats,
    wall: f64,
    n_unknown: usize,
    known_seen: &BTreeMap<String, (String, u64)>,
    inconclusive: &[String],
) -> Value {
    let mut samples = s.samples.clone();
    if samples.is_empty() {
        samples.push(json!("no sample recorded"));
    }
    json!({
        "property_id": o.id,
        "tier": o.tier.name(),
        "seed": o.seed,
        "level": "exploration",
        "wall_s": (wall * 10.0).round() / 10.0,
        "violations": n_unknown,
        "coverage": {
            "evaluations": s.evaluations,
            "distinct_nontrivial": s.nontrivial.len(),
            "nontrivial_evaluations": s.nontrivial_evals,
            "rule": check.rule(),
            "samples": samples,
            "exhaustive": false,
            "exhaustive_subdomains": s.exhaustive_parts,
            "clause_evaluations": s.clause_evals,
            "operation_histogram": s.op_hist,
            "state_features": s.features,
            "geometries": s.geoms,
            "counters": s.counters,
            "time_budget_reached": s.budget_hit,
            "sanitizer_slices": s.sanitizer,
            "known_findings_observed": known_seen.iter().map(|(k, v)| json!({"signature": k, "what": v.0, "count": v.1})).collect::<Vec<_>>(),
            "inconclusive": inconclusive,
            "workers": o.jobs,
        },
        "assumptions": check.assumptions(),
    })
}

// ---------------------------------------------------------------------------------------------
// replay
// ---------------------------------------------------------------------------------------------

pub fn replay_main(path: &Path) -> i32 {
    let s = match fs::read_to_string(path) {
        Ok(s) => s,
        Err(e) => {
            eprintln!("cannot read {}: {}", path.display(), e);
            return 2;
        }
    };
    let v: Value = match serde_json::from_str(&s) {
        Ok(v) => v,
        Err(e) => {
            eprintln!("bad replay file: {}", e);
            return 2;
        }
    };
    let viol: Viol = match serde_json::from_value(v["violation"].clone()) {
        Ok(v) => v,
        Err(e) => {
            eprintln!("bad replay file: {}", e);
            return 2;
        }
    };
    let check = match checks::by_id(&viol.case.check) {
        Some(c) => c,
        None => {
            eprintln!("unknown check {}", viol.case.check);
            return 2;
        }
    };
    println!("replaying {} (signature {})", path.display(), viol.sig());
    println!("case: {}", serde_json::to_string(&viol.case).unwrap());
    if viol.case.kind == "group" {
        println!("this is a process-level finding (abort/hang); re-run with:\n  mtverif worker {} --tier {} --seed {} --shard {} --nshards {} --only-group {} --out /tmp/x.json",
            viol.case.check, viol.case.aux["tier"].as_str().unwrap_or("quick"), viol.case.aux["seed"], viol.case.aux["shard"], viol.case.aux["nshards"], viol.case.aux["group"]);
        return 1;
    }
    if (viol.clause == "hang" || viol.clause == "abort") && std::env::var("VERIF_REPLAY_CHILD").is_err() {
        // re-execute in a child process under a time limit: the case may kill or stall it
        let exe = std::env::current_exe().unwrap();
        let mut ch = match Command::new(exe).arg("replay").arg(path).env("VERIF_REPLAY_CHILD", "1").stdout(Stdio::null()).spawn() {
            Ok(c) => c,
            Err(_) => return 2,
        };
        let t = Instant::now();
        while t.elapsed() < Duration::from_secs(30) {
            if let Ok(Some(st)) = ch.try_wait() {
                println!("child finished: {}", describe_status(&st));
                return if st.success() { 0 } else { 1 };
            }
            std::thread::sleep(Duration::from_millis(50));
        }
        let _ = ch.kill();
        let _ = ch.wait();
        println!("REPRODUCED {}: the case did not return within 30 s", viol.sig());
        return 1;
    }
    let mut cx = Ctx::new(Tier::Quick, 1, 0, 1, Duration::from_secs(60));
    cx.verbose = true;
    crate::sys::install_panic_hook();
    let r = std::panic::catch_unwind(std::panic::AssertUnwindSafe(|| check.replay(&viol.case, &mut cx)));
    if r.is_err() {
        return match crate::sys::uncaught_panic() {
            Some((msg, loc, true)) => {
                println!("REPRODUCED {}: memterm panicked outside a judged operation: {} at {}", viol.sig(), msg, loc);
                1
            }
            _ => {
                println!("harness error while replaying (inconclusive)");
                2
            }
        };
    }
    if cx.stats.viols.is_empty() {
        println!("no violation reproduced");
        0
    } else {
        for (sig, (v, _)) in cx.stats.viols.iter() {
            println!("REPRODUCED {}\n{}", sig, v.detail);
        }
        1
    }
}
