#!/bin/bash
# tools/silence.sh <tier> <seed...> : every check must exit 0 without a VIOLATION line on the unchanged tree
cd /verif; tier=$1; shift
for seed in "$@"; do
  for id in $(jq -r '.checks[].property_id' MANIFEST.json); do
    s=$(date +%s)
    VERIF_SEED=$seed ./check $id $tier > work/silence_${id}_$seed.log 2>&1; rc=$?
    e=$(( $(date +%s) - s ))
    echo "seed=$seed $id exit=$rc ${e}s $(grep -c '^VIOLATION' work/silence_${id}_$seed.log) viol $(grep -c '^INCONCLUSIVE' work/silence_${id}_$seed.log) inconcl $(grep -c '^KNOWN' work/silence_${id}_$seed.log) known"
  done
done
