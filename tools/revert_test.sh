#!/bin/bash
# For every "fixed" entry of known_findings.json: revert that fix alone in a scratch worktree and
# check that the quick check of the named property reports a VIOLATION (sensitivity, DESIGN §8).
cd /verif
OUT=/verif/work/revert_test.txt; : > $OUT
W=/tmp/mt_rev
jq -r '.fixed[] | "\(.property) \(.commit)"' known_findings.json | while read prop commit; do
  git -C /repo worktree remove --force $W 2>/dev/null; rm -rf $W
  git -C /repo worktree add -q --detach $W HEAD || { echo "$prop $commit WORKTREE-FAIL" >> $OUT; continue; }
  if ! git -C $W revert --no-commit $commit >/dev/null 2>&1; then
    echo "$prop $commit REVERT-CONFLICT" >> $OUT; git -C $W revert --abort 2>/dev/null; continue
  fi
  cp /repo/Cargo.lock $W/Cargo.lock
  VERIF_REPO=$W VERIF_BUDGET=${RB:-8} ./check $prop quick > /verif/work/revert_$commit.log 2>&1
  rc=$?
  nsig=$(grep -c '^VIOLATION' /verif/work/revert_$commit.log)
  echo "$prop $commit exit=$rc violations=$nsig" >> $OUT
done
git -C /repo worktree remove --force $W 2>/dev/null; rm -rf $W /verif/target-alt
cat $OUT
