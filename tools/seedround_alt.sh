#!/bin/bash
# tools/seedround_alt.sh <prefix> <ID>... : like seedround.sh, but never touches /repo's working tree or
# /verif/target (usable while a long check run is in flight): harness from $HARNESS_WT built in $HARNESS_TGT
PFX=$1; shift
cd /verif
for i in "$@"; do
  O=/tmp/${PFX}_${i}_out
  [ -f $O/patch.diff ] || { echo "$i: no patch"; continue; }
  c=$(tools/seedconfirm.sh $i $O 2>&1 | grep -E "exit=|test result|NOT APPLY" | tr '\n' ' ' | sed 's/test result: //g; s/; 0 measured; 0 filtered out; finished in [0-9.]*s//g')
  r=$(tools/seedrun_alt.sh $O/patch.diff $i 2>&1 | grep -E "exit|FAIL")
  echo "$i | confirm: $c | check: $r"
done
