#!/bin/bash
# tools/seed_all.sh : every stored seeded change must be caught by the quick check of its property
cd /verif; OUT=work/seed_all.txt; : > $OUT
for d in seeded/*/; do
  name=$(basename $d); prop=$(jq -r .property $d/meta.json)
  git -C /repo apply /verif/$d/patch.diff || { echo "$name APPLY-FAIL" >> $OUT; continue; }
  VERIF_STALL=30 VERIF_BUDGET=${SB:-8} ./check $prop quick > work/seedall_$name.log 2>&1; rc=$?
  git -C /repo checkout -- .
  echo "$name $prop exit=$rc $(grep -m1 'signature:' work/seedall_$name.log)" >> $OUT
done
git -C /repo status --short | grep -v parser_log >> $OUT
cat $OUT
