#!/bin/bash
# silence at several seeds, then every stored seeded change, then every mutant, then every reverted fix
cd /verif
tools/silence.sh quick 1 2 3 5 > work/final_silence.txt 2>&1
tools/seed_all.sh > work/final_seed_all.log 2>&1
RB=8 VERIF_STALL=30 tools/mutant_test.sh > work/final_mutants.log 2>&1
tools/revert_test.sh > work/final_revert.log 2>&1
git checkout -- evidence
echo done > work/final_validation.done
