#!/usr/bin/env python3
"""Regenerates /verif/MANIFEST.json from the table below (keeps it valid at all times)."""
import json, os, subprocess, sys

HERE = os.path.dirname(os.path.dirname(os.path.abspath(__file__)))

# id -> (technique, level text, level note, design ref)
CHECKS = {
 "C01": ("crash/hang/wedge monitor: return-vs-unwind per call in an overflow-checked build inside watchdogged worker processes + liveness probe; ASan, valgrind memcheck and Miri slices (thorough)",
         "exploration: every feed/API/resize/display call of ~270k cases per quick run (sessions, hostile mutations, class-alphabet strings after 14 state-setting prefixes, every pool sequence cut at every byte and fed unit by unit, all 2-byte strings, API sequences with arguments in {absent} U [0,9999], captured sessions; chars and bytes, UTF-8 and 8-bit, three chunkings; geometries 1x1..140x40) must return, then display() must return `lines` rows and BEL BEL CAN ESC c + sentinel must draw the sentinel; the coroutine-stack high-water mark is measured on every 64th parser case; thorough adds AddressSanitizer, valgrind memcheck (both run the coroutine) and Miri (Screen API only) slices",
         "'no unbounded loop' restated as bounded progress under a watchdog (a stall counts only after three isolated re-runs); sanitizers see only the paths driven; Miri cannot run the parser coroutine", "§6 C01, §5"),
 "C02": ("model-free differential pair monitor: whole-stream run vs chunked runs, full snapshots compared",
         "exploration: ~1.3M stream/partition pairs per quick run: every 2-way cut of short streams (incl. inside UTF-8 sequences and escape sequences), every 3-way cut of very short ones, unit-at-a-time, random k-way cuts with empty chunks, for Parser, ByteParser UTF-8 and ByteParser 8-bit, plus random cuts of the seven captured sessions",
         "both runs are the implementation itself: a chunk-independent but wrong result is other properties' business", "§6 C02"),
 "C03": ("event-log conformance against an independently written explicit-state recogniser; class-alphabet strings enumerated with ground-state pruning",
         "exploration with an exhaustive sub-domain: all strings up to length 4 (quick) / 6 (thorough) over an 87-character class alphabet whose proper prefixes keep the reference outside ground, both parser modes, plus all 135 424 ordered pairs of a pool of 368 complete / aborted / skipped / foreign sequences, all 83 521 chains of length 4 over a focused pool, zero padding and parameter lists of extreme length, two parsers interleaved on one thread, digit runs of 1..40 digits and parameters around the machine-integer widths for every final, the three dispatch tables called directly, random long strings and mutated sessions; the listener's dispatch tables are inside the observed system",
         "where the statement is silent the reference follows the documented pyte recogniser; OSC R/P and multi-character OSC codes are don't-care; Cc characters ignored in text comparison", "§6 C03, App. A"),
 "C04": ("per-step Hoare monitor: reference drawing semantics on the implementation's own pre-state; zoo states x text classes, API + parser path",
         "exploration with an exhaustive sub-domain: every Unicode scalar value (1 112 064) drawn between two letters, at the last column and after a double-width character; plus ~1M judged draw() calls per quick run over zoo states (pending wrap, IRM, DECAWM off, margins, wide/combining content, 1-column screens) and a 46-character class pool (singles, all ordered pairs, random strings)",
         "reference semantics written from the statement; width/combining tables trusted; three corners the statement leaves open are accepted either way (DESIGN §6 C04)", "§6 C04"),
 "C05": ("per-step Hoare monitor (closed-form cursor oracle) over enumerated and generated states, API + parser path",
         "exploration: every movement call observed in ~2M executions per quick run is judged against the closed-form rule applied to the implementation's own pre-state; small geometries x regions x DECOM x cursors x P(size) enumerated completely",
         "closed-form rule transcribed from the statement; reachable states only; larger geometries sampled", "§6 C05"),
 "C06": ("per-step Hoare monitor: reference row permutation on marker grids, enumerated regions/cursor rows/counts, API + parser path",
         "exploration: every IND/LF/VT/FF/NEL/RI/IL/DL/DECSTBM call (and autowrap at the bottom margin) judged row by row against the reference permutation; all regions x cursor rows x P(lines) enumerated on screens up to 4x6",
         "cell contents (written / never-written / materialised rows) are sampled, not enumerated; two DECSTBM corners accepted either way (DESIGN §6 C06)", "§6 C06"),
 "C07": ("per-step Hoare monitor: expected erased set + cursor rendition, every cursor cell x selector x count, API + parser path",
         "exploration with exhaustive sub-domains: every ED/EL/ECH call judged cell by cell; all cursor cells incl. pending wrap x all selectors x P(columns) enumerated on small screens; every Unicode scalar value drawn with the erasing rendition and then erased",
         "contents/renditions sampled from the state zoo", "§6 C07"),
 "C08": ("per-step Hoare monitor: independent SGR fold with computed xterm palette; exhaustive single codes / extended-colour forms / pairs",
         "exploration with exhaustive sub-domains: all 16 777 216 true colours 38|48;2;r;g;b; every SGR code 0..=9999, every 38|48;5;n and boundary 38|48;2;r;g;b form, truncated forms and all ordered pairs of 70 codes from 6 attribute states, API + parser, each followed by drawing a character; plus random lists",
         "palette computed from the xterm definition; triples and longer lists sampled", "§6 C08"),
 "C09": ("invariant hook evaluated after every listener call / resize of long mixed histories (observed inside feed() by the pass-through listener)",
         "exploration: ~4M invariant evaluations per quick run over mixed byte/API/resize/DECCOLM histories; a violation is attributed to the call after which it first holds; display() length checked on forks",
         "the invariant is evaluated on the normalised snapshot (hidden cells/rows are not part of it)", "§6 C09"),
 "C10": ("(A) display() on a fork vs rendering recomputed from the snapshot; (B) model-free pair monitor: same history with/without display() interposed",
         "exploration with an exhaustive sub-domain: every Unicode scalar value rendered by display() (followed by text / right-hand neighbour overwritten / appended to a narrow and a wide base); plus ~280k history pairs and ~110k renderings per quick run; for histories <= 30 ops display() is interposed before each single op, before every op and before random subsets; full snapshots after every op and the final display() must be equal",
         "a non-placeholder cell after a double-width lead may be rendered or skipped (statement silent)", "§6 C10"),
 "C11": ("differential event-log monitor: ByteParser on chunks vs the same recogniser on std's lossy decoding of the concatenation",
         "exploration with an exhaustive sub-domain: every boundary/ill-formed UTF-8 form and each of its truncations in four contexts, all byte strings of length <= 3 over a 24-byte class alphabet, each whole, at every 2-way cut, every 3-way cut (strings <= 9 bytes) and byte-at-a-time; random byte strings, mutated sessions and mode switches between chunks; single feeds of up to 1.1 MB whose decoding is longer than the input",
         "String::from_utf8_lossy is the trusted reference decoder; a partial sequence pending at a mode switch may be dropped or replaced", "§6 C11"),
 "C12": ("per-step Hoare monitor: mode-set bookkeeping + side-effect table; exhaustive mode numbers",
         "exploration with an exhaustive sub-domain: every mode number 0..=9999 x {private, ANSI} x {SM, RM} x {API, parser} from several zoo states, plus lists, repeats and interleavings with DECSC/DECRC, resize and drawing",
         "DECCOLM corners the statement leaves open (rendition of the blanks, margins, repeated SM) accepted either way (DESIGN §6 C12)", "§6 C12"),
 "C13": ("per-step Hoare monitor: list-splice reference on the visible row; all edit sequences up to a bound, each followed by a grow probe",
         "exploration with an exhaustive sub-domain: all sequences (length <= 2 quick / 3 thorough, plus the probe) over {ICH n, DCH n, ECH n, EL 0/1/2, draw} on rows of 1..=5 columns from every cursor column and three row representations, each ending with a 2-column grow whose new cells must be blank; plus random states",
         "longer sequences sampled", "§6 C13"),
 "C14": ("per-step Hoare monitor over save^k . ops . restore^m histories: exact push/pop of the observable cursor state, stack untouched by everything else",
         "exploration: ~1.4M judged calls per quick run; DECSC must push exactly the observable cursor state and DECRC pop it with the documented clamping and one-way mode re-enabling; every other call must leave the stack alone; nesting of 600 / 70 000 levels, screens with a dimension beyond 16 bits",
         "the saved stack is observed through the public savepoints field; a saved pending-wrap column may come back as columns or columns-1", "§6 C14"),
 "C15": ("model-free: snapshot(h . RIS) vs Screen::new of the current size, and (h . RIS . t) vs (new . t) after every op of t",
         "exploration with an exhaustive sub-domain: every chain of up to 4 (thorough 5) cell-free operations from a new screen, then RIS; plus ~100k histories per quick run (1.4M continuation steps); every Screen component is perturbed before RIS (counted per component, required non-zero); RIS via ESC c and reset()",
         "continuations contain no DECRC (the saved stack is the one thing RIS leaves alone)", "§6 C15"),
 "C16": ("per-step Hoare monitor: reference crop/extend + reappearance probe (grow after every judged resize)",
         "exploration: all target sizes 1..=max+2 in both dimensions for screens <= 8x5 from zoo states (margins, DECOM, pending wrap, wide characters, hidden-cell producers), resize sequences <= 3, DECCOLM round trips; every judged state is grown by (+2,+2) and the new area must be blank",
         "cursor only required to be inside the new bounds (statement does not say where)", "§6 C16"),
 "C17": ("model-free window monitor playing the embedder: rows changed since the last clear must be in dirty; screen-wide changes mark all rows; no stale index",
         "exploration: ~860k listener calls per quick run inside random clear-windows, over mixed histories plus targeted ones (combining mark at column 0, both spellings of DECSCNM, shrink, wrap, regions, DECCOLM, DECALN/RIS)",
         "over-approximation of dirty is allowed by the statement and never reported", "§6 C17"),
 "C18": ("per-step Hoare monitor: closed-form HT/HTS/TBC; every width 1..=140 enumerated",
         "exploration with an exhaustive sub-domain: default stops and HT from every column incl. pending wrap for every width 1..=140; random HTS/TBC sequences followed by an HT walk; width changes between setting and using a stop",
         "the stop set is observed through the public tabstops field and compared exactly, also beyond the right edge", "§6 C18"),
 "C19": ("generated OSC strings with the expected title/icon known by construction, real Screen, all terminators/introducers/cuts",
         "exploration with an exhaustive sub-domain: 2 introducers x 19 codes x 3 terminators x 130 payloads incl. every printable ASCII singleton and byte-aliases of grammar characters, every 2-way cut for codes 0/1/2, Parser and ByteParser; every Unicode scalar value inside a payload, bare and after ESC; all ordered pairs (and some triples) of OSC strings on one parser; payload lengths up to 2^20+37",
         "codes R and P excluded (see C03)", "§6 C19"),
 "C20": ("exhaustive table check through draw(): cell text vs golden tables derived independently of the repository; API, Parser and ByteParser paths",
         "exhaustive on the finite domain (256 code points x 4 tables x {G0,G1} x {SI,SO} via the API; every drawable byte x the same configurations via ByteParser and Parser in 8-bit mode; defaults after construction/RIS; every designator final; UTF-8 mode ignores shifts/designators; DECSC / re-designation / DECRC / draw at once from all 32 charset states) plus per-step judging of SO/SI/designations in random traffic",
         "golden tables typed in from the Linux console maps and Python's cp437 codec (/verif/data/gen_tables.py); the 8 VAX42 substitutions are a trusted literal", "§6 C20"),
}

NOT_BUILT = {}

def main():
    props = [json.loads(l) for l in open(os.path.join(HERE, "properties.jsonl"))]
    hooks_commits = []
    try:
        out = subprocess.check_output(["git", "-C", "/repo", "log", "--format=%H %s"], text=True)
        for line in out.splitlines():
            h, s = line.split(" ", 1)
            if s.startswith("verif hook"):
                hooks_commits.append(h)
    except Exception:
        pass
    checks = []
    na = []
    for p in props:
        i = p["id"]
        if i in CHECKS:
            tech, text, note, ref = CHECKS[i]
            checks.append({
                "property_id": i,
                "quick_cmd": f"./check {i} quick",
                "thorough_cmd": f"./check {i} thorough",
                "evidence_file": f"/verif/evidence/{i}.json",
                "replay_cmd_template": f"./check {i} quick --replay {{path}}",
                "engine": "mtverif",
                "level_claimed": {"category": "exploration", "text": text, "design_ref": ref},
                "level_note": note,
                "technique": "runtime monitoring: " + tech,
            })
        else:
            na.append({"property_id": i, "reason": NOT_BUILT.get(i, "monitor designed (DESIGN.md §6) but not built yet in this session; not claimed until its check exists")})
    m = {
        "version": 1,
        "setup_cmd": "./check build",
        "hooks": {
            "guard": "cargo feature memterm_verif",
            "enable": "the harness crate depends on memterm with features = [\"memterm_verif\"] (path dependency on /repo, rebuilt on every check)",
            "baseline_off_cmd": "cd /repo && cargo test --workspace --no-fail-fast --offline",
            "source_commits": hooks_commits,
            "add_only": True,
        },
        "engines": [{
            "name": "mtverif",
            "path": "/verif/harness",
            "serves_properties": [c["property_id"] for c in checks],
            "kind_free_text": "Rust harness linking the real memterm crate: recording pass-through listener, normalised snapshots, reference semantics applied per step to the implementation's own pre-state (API path, parser path with a dispatch comparison against a reference recogniser, and long sessions judged call by call), model-free pair monitors, event-log checkers; 16 worker processes with panic capture, crash attribution, progress watchdog and replayable witnesses; ASan slices for every thorough tier, valgrind and Miri slices for C01",
        }],
        "checks": checks,
        "not_applicable": na,
        "notes": "exit codes of ./check: 0 held on everything explored (KNOWN-FINDING lines possible), 1 VIOLATION, 2 inconclusive / harness error (never a verdict). VERIF_SEED, VERIF_TIER, VERIF_BUDGET (seconds per worker), VERIF_JOBS honoured.",
    }
    with open(os.path.join(HERE, "MANIFEST.json"), "w") as f:
        json.dump(m, f, indent=1)
        f.write("\n")
    print("MANIFEST.json:", len(checks), "checks,", len(na), "not claimed")

if __name__ == "__main__":
    main()
