#!/usr/bin/env python3
"""Regenerates /verif/MANIFEST.json from the table below (keeps it valid at all times)."""
import json, os, subprocess, sys

HERE = os.path.dirname(os.path.dirname(os.path.abspath(__file__)))

# id -> (technique, level text, level note, design ref)
CHECKS = {
 "C05": ("per-step Hoare monitor (closed-form cursor oracle) over enumerated and generated states, API + parser path",
         "exploration: every movement call observed in ~2M executions per quick run is judged against the closed-form rule applied to the implementation's own pre-state; small geometries x regions x DECOM x cursors x P(size) enumerated completely",
         "closed-form rule transcribed from the statement; reachable states only; larger geometries sampled", "§6 C05"),
}

NOT_BUILT = {}

def main():
    props = [json.loads(l) for l in open(os.path.join(HERE, "properties.jsonl"))]
    hooks_commits = []
    try:
        out = subprocess.check_output(["git", "-C", "/repo", "log", "--format=%H %s"], text=True)
        for line in out.splitlines():
            h, s = line.split(" ", 1)
            if s.startswith("verif hook"):
                hooks_commits.append(h)
    except Exception:
        pass
    checks = []
    na = []
    for p in props:
        i = p["id"]
        if i in CHECKS:
            tech, text, note, ref = CHECKS[i]
            checks.append({
                "property_id": i,
                "quick_cmd": f"./check {i} quick",
                "thorough_cmd": f"./check {i} thorough",
                "evidence_file": f"/verif/evidence/{i}.json",
                "replay_cmd_template": f"./check {i} quick --replay {{path}}",
                "engine": "mtverif",
                "level_claimed": {"category": "exploration", "text": text, "design_ref": ref},
                "level_note": note,
                "technique": "runtime monitoring: " + tech,
            })
        else:
            na.append({"property_id": i, "reason": NOT_BUILT.get(i, "monitor designed (DESIGN.md §6) but not built yet in this session; not claimed until its check exists")})
    m = {
        "version": 1,
        "setup_cmd": "./check build",
        "hooks": {
            "guard": "cargo feature memterm_verif",
            "enable": "the harness crate depends on memterm with features = [\"memterm_verif\"] (path dependency on /repo, rebuilt on every check)",
            "baseline_off_cmd": "cd /repo && cargo test --workspace --no-fail-fast --offline",
            "source_commits": hooks_commits,
            "add_only": True,
        },
        "engines": [{
            "name": "mtverif",
            "path": "/verif/harness",
            "serves_properties": [c["property_id"] for c in checks],
            "kind_free_text": "Rust harness linking the real memterm crate: recording pass-through listener, normalised snapshots, reference semantics applied per step to the implementation's own pre-state, model-free pair monitors, event-log checkers; 16 worker processes with panic capture, crash attribution and watchdog; ASan / valgrind / Miri slices for C01",
        }],
        "checks": checks,
        "not_applicable": na,
        "notes": "exit codes of ./check: 0 held on everything explored (KNOWN-FINDING lines possible), 1 VIOLATION, 2 inconclusive / harness error (never a verdict). VERIF_SEED, VERIF_TIER, VERIF_BUDGET (seconds per worker), VERIF_JOBS honoured.",
    }
    with open(os.path.join(HERE, "MANIFEST.json"), "w") as f:
        json.dump(m, f, indent=1)
        f.write("\n")
    print("MANIFEST.json:", len(checks), "checks,", len(na), "not claimed")

if __name__ == "__main__":
    main()
