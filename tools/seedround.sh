#!/bin/bash
# tools/seedround.sh <prefix> <ID>... : for each ID confirm /tmp/<prefix>_<ID>_out in a fresh worktree
# (tests pass with the patch, demo exits 0 without / 101 with), then run the target check on it.
PFX=$1; shift
cd /verif
for i in "$@"; do
  O=/tmp/${PFX}_${i}_out
  [ -f $O/patch.diff ] || { echo "$i: no patch"; continue; }
  c=$(tools/seedconfirm.sh $i $O 2>&1 | grep -E "exit=|test result|NOT APPLY" | tr '\n' ' ' | sed 's/test result: //g; s/; 0 measured; 0 filtered out; finished in [0-9.]*s//g')
  r=$(tools/seedrun.sh $O/patch.diff $i 2>&1 | grep exit)
  echo "$i | confirm: $c | check: $r"
done
