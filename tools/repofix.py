#!/usr/bin/env python3
"""tools/repofix.py <file> <msgfile> : apply exact-string replacements (JSON list of [old,new]) from stdin to /repo/<file>,
run the unit tests with the hook feature off, and commit with the message in <msgfile> if they pass."""
import json, subprocess, sys
path, msgfile = sys.argv[1], sys.argv[2]
reps = json.load(sys.stdin)
p = '/repo/' + path
s = open(p).read()
for old, new in reps:
    if s.count(old) != 1:
        print('PATTERN COUNT', s.count(old), 'for', old[:60]); sys.exit(1)
    s = s.replace(old, new)
open(p, 'w').write(s)
r = subprocess.run('cd /repo && cargo test --workspace --no-fail-fast --offline 2>&1 | grep "test result"', shell=True, capture_output=True, text=True)
print(r.stdout)
if 'failed' not in r.stdout or ' 0 failed' not in r.stdout or r.stdout.count(' 0 failed') != r.stdout.count('test result'):
    print('TESTS FAILED - not committing'); sys.exit(1)
subprocess.check_call(['git', '-C', '/repo', 'commit', '-qa', '-F', msgfile])
print(subprocess.check_output(['git', '-C', '/repo', 'log', '--oneline', '-1'], text=True))
