#!/bin/bash
# tools/seedrun.sh <patch.diff> <ID> [<ID>...] : apply a seeded change to /repo, run the quick checks, undo it.
P=$1; shift
cd /verif
git -C /repo apply "$P" || { echo "patch does not apply"; exit 2; }
for id in "$@"; do
  VERIF_BUDGET=${SB:-10} ./check $id quick > work/seed_$id.log 2>&1; rc=$?
  echo "$id exit=$rc $(grep -c '^VIOLATION' work/seed_$id.log) violation lines; $(grep -m1 'signature:' work/seed_$id.log)"
done
git -C /repo checkout -- . ; git -C /repo status --short | grep -v parser_log
