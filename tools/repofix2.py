#!/usr/bin/env python3
"""like repofix.py but each pattern must occur exactly N times (default 2: both FSM copies of parser.rs) - `[old,new,count]`"""
import json, subprocess, sys
path, msgfile = sys.argv[1], sys.argv[2]
reps = json.load(sys.stdin)
p = '/repo/' + path
s = open(p).read()
for r in reps:
    old, new = r[0], r[1]
    cnt = r[2] if len(r) > 2 else 2
    if s.count(old) != cnt:
        print('PATTERN COUNT', s.count(old), 'expected', cnt, 'for', old[:70]); sys.exit(1)
    s = s.replace(old, new)
open(p, 'w').write(s)
r = subprocess.run('cd /repo && cargo test --workspace --no-fail-fast --offline 2>&1 | grep -E "test result|FAILED|panicked"', shell=True, capture_output=True, text=True)
print(r.stdout)
if r.stdout.count(' 0 failed') != r.stdout.count('test result') or r.stdout.count('test result') < 2:
    print('TESTS FAILED - not committing'); sys.exit(1)
subprocess.check_call(['git', '-C', '/repo', 'commit', '-qa', '-F', msgfile])
print(subprocess.check_output(['git', '-C', '/repo', 'log', '--oneline', '-1'], text=True))
