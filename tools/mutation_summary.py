#!/usr/bin/env python3
"""Summarise work/mutation_campaign.jsonl into mutants/campaign_summary.json (committed).
The classification of the survivors is by hand (see DESIGN section 8)."""
import json, collections
rs = {}
for l in open('/verif/work/mutation_campaign.jsonl'):
    r = json.loads(l); rs[(r['file'], r['line'], r['after'])] = r
rs = list(rs.values())
# verdicts revised after the campaign (machinery strengthened, mutant re-run by hand)
RERUN = {
    ('src/screen.rs', 242): ('C01', 'C01:panic:process (panic in Screen::new on 1-column screens; was inconclusive before uncaught panics of the code under test were told apart from harness errors)'),
    ('src/screen.rs', 253): ('C01', 'C01:panic:process (panic in Screen::new on 1-line screens; same)'),
}
CLASS = {
    176: 'equivalent: Screen::new runs reset() right afterwards, which sets hidden again',
    212: 'equivalent: resize() ends with dirty.retain(y < lines)',
    214: 'equivalent: zero rows dropped, the filter is the identity',
    220: 'unobservable: differs only for a stored row at index == lines, which no operation creates any more',
    225: 'equivalent: empty loop',
    227: 'unobservable: additionally removes a stored cell at index == columns, which no operation creates any more',
    303: 'equivalent: the value is clamped again and the region is rejected either way',
    419: 'equivalent: dirty is refilled with every row, and never holds an index >= lines',
    442: 'unspecified: cursor hidden after RIS; no property fixes the power-on visibility (C15 compares with a new screen, which is built by the same reset)',
    445: 'equivalent: the cursor was just set to (0,0)',
    463: 'equivalent: the extra row is overwritten by the next loop',
    468: 'equivalent: the extra row is overwritten by the blank line',
    477: 'unobservable: copies an empty row to index == lines',
    511: 'equivalent: as 463 (reverse index)',
    526: 'unobservable: as 477 (reverse index)',
    581: 'equivalent: reset_mode(DECOM) homes the cursor already',
    621: 'equivalent: clamped by the next statement',
    735: 'equivalent: adds zero',
    761: 'unobservable: touches the cell at index == columns only',
    823: 'equivalent: x == count gives 0 in both branches',
    828: 'equivalent: x was brought below columns before',
    939: 'equivalent: the destination row was removed when it was a source itself (rows are visited bottom-up)',
    954: 'unobservable: the extra row index == lines is never stored',
    988: 'unobservable: touches the cell at index == columns only',
    989: 'unobservable: differs only for a stored cell at index == columns',
    1034: 'unobservable: report_device_attributes only calls write_process_input, a no-op',
    1035: 'unobservable: as 1034',
    1185: 'unspecified: a stale remembered DECCOLM width shows only in RM ?3 on a screen that was made 132 wide by resize(), which no statement covers',
    1223: 'equivalent for the parser (never delivers an empty list); API Sgr([]) may reset or not (documented leniency)',
    154: 'unobservable on the screen: CAN/SUB inside a CSI still ends the sequence (unknown final), only the draw() of the control character - a no-op - disappears',
    192: 'unspecified: OSC R / OSC P (palette) are excluded from C03/C19',
}
out = {'candidates': len(rs)}
c = collections.Counter(r['status'] for r in rs)
out['does_not_compile'] = c['does-not-compile']
surv = []
killed = [r for r in rs if r['status'] == 'killed']
for r in rs:
    if r['status'] == 'SURVIVED':
        k = (r['file'], r['line'])
        if k in RERUN:
            r = dict(r); r['status'] = 'killed'; r['killed_by'], r['signature'] = RERUN[k]; killed.append(r)
        else:
            surv.append({'file': r['file'], 'line': r['line'], 'before': r['before'], 'after': r['after'], 'unit_tests': r['unit_tests'], 'class': CLASS.get(r['line'], 'UNCLASSIFIED')})
out['compiling'] = len(killed) + len(surv)
out['killed_by_checks'] = len(killed)
out['killed_by_checks_while_all_91_unit_tests_pass'] = sum(1 for r in killed if r['unit_tests'] == 'pass')
out['killed_by_checks_and_by_unit_tests'] = sum(1 for r in killed if r['unit_tests'] == 'fail')
out['first_killer'] = dict(collections.Counter(r['killed_by'] for r in killed).most_common())
out['survivors'] = sorted(surv, key=lambda s: (s['file'], s['line']))
out['survivor_classes'] = dict(collections.Counter(s['class'].split(':')[0] for s in surv))
out['survivors_that_fail_unit_tests'] = sum(1 for s in surv if s['unit_tests'] == 'fail')
out['per_file'] = dict(collections.Counter(r['file'] for r in rs))
json.dump(out, open('/verif/mutants/campaign_summary.json', 'w'), indent=1)
print({k: v for k, v in out.items() if k != 'survivors'})

# ---- second campaign (operator set 2) ----
import os
if os.path.exists('/verif/work/mutation_campaign2.jsonl'):
    rs2 = {}
    for l in open('/verif/work/mutation_campaign2.jsonl'):
        r = json.loads(l); rs2[(r['file'], r['line'], r['after'])] = r
    rs2 = list(rs2.values())
    def cls2(r):
        a, b, ln, f = r['after'], r['before'], r['line'], r['file']
        if '*c > 1' in a or 'a > 1' in a: return 'equivalent: the only value that changes side (1) maps to the default 1 anyway'
        if 'expect(' in a: return 'equivalent: only the text of an expect() message changed'
        if f.endswith('parser_listener.rs') and ln == 90: return 'equivalent: only a parameter name in a trait declaration changed'
        if ln == 1034 or ln == 1035: return 'unobservable: report_device_attributes only calls write_process_input, a no-op'
        if ln in (173, 440): return 'equivalent: the cursor is homed right afterwards'
        if ln == 236: return 'unspecified: where the cursor column ends after resize() (the statement only demands inside the new bounds)'
        if ln == 338: return 'equivalent under the documented leniency: pushing an empty placeholder equals skipping it; a non-placeholder cell after a wide lead may be rendered or skipped'
        if ln == 1225: return 'equivalent: falling through, the general path resets again'
        if ln == 1223: return 'equivalent: [0] takes the general path with the same result'
        if ln in (735, 688, 225, 463, 897, 989): return 'equivalent: the extra work is overwritten / a no-op (empty range, selector 2/3 already erased, value recomputed)'
        if ln == 1168: return 'allowed: marks all rows dirty more often (over-approximation is permitted)'
        if f.endswith('parser.rs') and ln == 154: return 'unobservable on the screen: CAN/SUB inside a CSI still ends the sequence, only the no-op draw() of the control character disappears'
        if f.endswith('parser.rs') and ln == 192: return 'unspecified: OSC R / OSC P are excluded from C03/C19'
        if f.endswith('parser.rs') and ln == 190: return 'equivalent: the final else of the recogniser is unreachable (every character the FSM is handed is BASIC, a CSI or an OSC introducer)'
        return 'UNCLASSIFIED'
    killed2 = [r for r in rs2 if r['status'] == 'killed']
    surv2 = [dict(file=r['file'], line=r['line'], before=r['before'], after=r['after'], unit_tests=r['unit_tests'], **{'class': cls2(r)}) for r in rs2 if r['status'] == 'SURVIVED']
    out2 = {'candidates': len(rs2), 'does_not_compile': sum(1 for r in rs2 if r['status'] == 'does-not-compile'), 'compiling': len(killed2) + len(surv2), 'killed_by_checks': len(killed2),
            'killed_by_checks_while_all_91_unit_tests_pass': sum(1 for r in killed2 if r['unit_tests'] == 'pass'),
            'first_killer': dict(collections.Counter(r['killed_by'] for r in killed2).most_common()),
            'survivors': sorted(surv2, key=lambda s: (s['file'], s['line'])), 'survivor_classes': dict(collections.Counter(s['class'].split(':')[0] for s in surv2))}
    json.dump(out2, open('/verif/mutants/campaign2_summary.json', 'w'), indent=1)
    print({k: v for k, v in out2.items() if k != 'survivors'})
