#!/bin/bash
# tools/seedconfirm.sh <PID> <outdir> : independently confirm a seeded change in a fresh scratch worktree:
#  tests pass with the patch; the demo fails with it and passes without it.
PID=$1; OUT=$2; W=/tmp/seedconf_$PID
git -C /repo worktree remove --force $W 2>/dev/null; rm -rf $W
git -C /repo worktree add -q --detach $W HEAD && cp /repo/Cargo.lock $W/
mkdir -p $W/examples && cp $OUT/demo.rs $W/examples/demo.rs
cd $W
echo "== demo WITHOUT patch"; cargo run --offline --example demo >/tmp/seedconf_$PID.a 2>&1; echo "exit=$?"
git apply $OUT/patch.diff || { echo "PATCH DOES NOT APPLY"; exit 1; }
echo "== tests WITH patch"; cargo test --workspace --no-fail-fast --offline 2>&1 | grep "test result"
echo "== demo WITH patch"; cargo run --offline --example demo >/tmp/seedconf_$PID.b 2>&1; echo "exit=$?"; tail -3 /tmp/seedconf_$PID.b
cd /; git -C /repo worktree remove --force $W; rm -rf $W
