#!/bin/bash
# tools/seed_all_alt.sh : like seed_all.sh, but in a scratch worktree of /repo with the harness of
# $HARNESS_WT built in $HARNESS_TGT (usable while another run is in flight). Output: work/seed_all_alt.txt
cd /verif; OUT=work/seed_all_alt.txt; : > $OUT
for d in seeded/*/; do
  name=$(basename $d); prop=$(jq -r .property $d/meta.json)
  r=$(SB=${SB:-18} tools/seedrun_alt.sh /verif/$d/patch.diff $prop 2>&1 | grep -E "exit|FAIL|apply" | head -1)
  echo "$name $r" >> $OUT
done
