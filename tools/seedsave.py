#!/usr/bin/env python3
"""tools/seedsave.py <seed-name> <property> <outdir> <caught-by> <needs...> : store a confirmed seeded change under /verif/seeded/<seed-name>/"""
import json, os, shutil, sys
name, prop, out, caught = sys.argv[1:5]
needs = " ".join(sys.argv[5:])
d = f'/verif/seeded/{name}'
os.makedirs(d, exist_ok=True)
shutil.copy(out + '/patch.diff', d + '/patch.diff')
shutil.copy(out + '/demo.rs', d + '/demo.rs')
if os.path.exists(out + '/notes.md'):
    shutil.copy(out + '/notes.md', d + '/notes.md')
meta = {
    "property": prop,
    "source": "independent sub-agent given only the property text and a scratch worktree",
    "needs_to_manifest": needs,
    "confirmed": "tools/seedconfirm.sh: in a fresh scratch worktree the 91 unit tests + doc tests pass with the patch; examples/demo.rs exits 0 without the patch and 101 with it",
    "ran": f"tools/seedrun.sh {d}/patch.diff {prop}  (git -C /repo apply; ./check {prop} quick; git -C /repo checkout -- .)",
    "caught_by": caught,
}
json.dump(meta, open(d + '/meta.json', 'w'), indent=1)
print('saved', d)
