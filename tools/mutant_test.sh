#!/bin/bash
# tools/mutant_test.sh [pattern] : apply each /verif/mutants/<ID>-<name>.patch to a scratch worktree, record whether the
# repository's own tests still pass, and whether `check <ID> quick` (VERIF_REPO=worktree) reports a VIOLATION.
cd /verif
OUT=/verif/work/mutant_test.txt; : > $OUT
W=/tmp/mt_mutrun
for p in mutants/${1:-*}.patch; do
  name=$(basename $p .patch); prop=${name%%-*}
  git -C /repo worktree remove --force $W 2>/dev/null; rm -rf $W
  git -C /repo worktree add -q --detach $W HEAD; cp /repo/Cargo.lock $W/
  if ! git -C $W apply /verif/$p; then echo "$name APPLY-FAIL" >> $OUT; continue; fi
  t=$(cd $W && cargo test --workspace --no-fail-fast --offline 2>&1 | grep "test result" | head -1 | sed 's/.*ok\. //;s/;.*//;s/test result: //')
  VERIF_REPO=$W VERIF_BUDGET=${RB:-8} ./check $prop quick > work/mutant_$name.log 2>&1; rc=$?
  echo "$name tests=[$t] check_exit=$rc violations=$(grep -c '^VIOLATION' work/mutant_$name.log) $(grep -m1 'signature:' work/mutant_$name.log)" >> $OUT
done
git -C /repo worktree remove --force $W 2>/dev/null; rm -rf $W /verif/target-alt
cat $OUT
