#!/usr/bin/env python3
"""summarise replays/<ID>-*.json grouped by (clause, op): one example each"""
import json,glob,sys
pid=sys.argv[1]
seen={}
for f in sorted(glob.glob(f'/verif/replays/{pid}-*.json')):
    d=json.load(open(f))
    v=d['violation']
    k=(v['clause'],v['op'])
    seen.setdefault(k,[]).append((d['signature'],d['detail'],f))
for k,lst in seen.items():
    print('=====',k,len(lst),'signatures; e.g.',lst[0][0], lst[0][2])
    print(lst[0][1][:1500])
