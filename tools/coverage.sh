#!/bin/bash
# tools/coverage.sh [budget] : line/region coverage of /repo/src reached by the quick workloads of all checks
# (nightly -Cinstrument-coverage build of the harness; workers are child processes, one profraw each)
cd /verif
B=${1:-6}
TOOLS=$(dirname $(find ~/.rustup/toolchains/nightly-x86_64-unknown-linux-gnu -name llvm-cov | head -1))
sed "s#@REPO@#/repo#" harness/Cargo.toml.in > harness/Cargo.toml
( cd harness && RUSTFLAGS="-Cinstrument-coverage" CARGO_TARGET_DIR=/verif/target-cov cargo +nightly build --release --offline >/verif/work/build-cov.log 2>&1 ) || { echo build failed; exit 2; }
BIN=/verif/target-cov/release/mtverif
rm -rf work/cov; mkdir -p work/cov
cp -r evidence work/cov/evidence.bak
for id in $($BIN list); do
  LLVM_PROFILE_FILE=/verif/work/cov/$id-%p-%m.profraw VERIF_DIR=/verif $BIN run $id --tier quick --budget $B > work/cov/$id.log 2>&1
  echo "$id rc=$? $(ls work/cov/$id-*.profraw 2>/dev/null | wc -l) profiles"
  $TOOLS/llvm-profdata merge -sparse work/cov/$id-*.profraw -o work/cov/$id.profdata && rm -f work/cov/$id-*.profraw
done
$TOOLS/llvm-profdata merge -sparse work/cov/*.profdata -o work/cov/all.profdata
$TOOLS/llvm-cov report $BIN -instr-profile=work/cov/all.profdata --sources /repo/src 2>/dev/null | tee work/cov/report.txt
$TOOLS/llvm-cov show $BIN -instr-profile=work/cov/all.profdata --sources /repo/src/screen.rs /repo/src/parser.rs /repo/src/byte_parser.rs /repo/src/parser_listener.rs --show-line-counts-or-regions 2>/dev/null > work/cov/show.txt
# evidence files were overwritten by the instrumented runs: restore
rm -rf evidence; mv work/cov/evidence.bak evidence
