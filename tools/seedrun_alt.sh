#!/bin/bash
# seedrun_alt.sh <patch> <ID...> : like seedrun.sh but never touches /repo or /verif/work:
# scratch worktree + dev copy of the harness + separate VERIF_DIR (usable while other runs are in flight)
P=$1; shift
W=/tmp/mt_seedalt; VD=/tmp/vt_work
git -C /repo worktree remove --force $W 2>/dev/null; rm -rf $W
git -C /repo worktree add -q --detach $W HEAD && cp /repo/Cargo.lock $W/
git -C $W apply "$P" || { echo "patch does not apply"; exit 2; }
cd ${HARNESS_WT:-/tmp/verif_wt}
sed "s#@REPO@#$W#" harness/Cargo.toml.in > harness/Cargo.toml
( cd harness && CARGO_TARGET_DIR=${HARNESS_TGT:-/tmp/chk_target_seed} cargo build --release --offline > /tmp/seedalt_build.log 2>&1 ) || { echo BUILD-FAIL; tail -5 /tmp/seedalt_build.log; exit 2; }
mkdir -p $VD; cp /verif/known_findings.json $VD/
for id in "$@"; do
  VERIF_STALL=30 VERIF_DIR=$VD ${HARNESS_TGT:-/tmp/chk_target_seed}/release/mtverif run $id --tier quick --budget ${SB:-10} > $VD/seed_$id.log 2>&1; rc=$?
  echo "$id exit=$rc $(grep -c '^VIOLATION' $VD/seed_$id.log) violation lines; $(grep -m1 'signature:' $VD/seed_$id.log)"
done
git -C /repo worktree remove --force $W; rm -rf $W
