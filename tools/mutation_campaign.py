#!/usr/bin/env python3
"""Mutation campaign (DESIGN §8): generate small syntactic mutants of the shipping code of
/repo (one token changed on one line), and for each record
  * whether it compiles,
  * whether the repository's own unit tests still pass,
  * which quick check (run with a tiny budget, in a fixed order, stopping at the first
    VIOLATION) kills it.
Survivors of both are either equivalent mutants or gaps of the oracles - they are listed for
inspection.  Nothing here touches /repo or /verif/work: a scratch worktree of /repo, a scratch
worktree of /verif (harness sources as committed) and a separate VERIF_DIR are used.

usage: mutation_campaign.py <max_mutants> [seed] [budget_s]
"""
import json, os, random, re, subprocess, sys, time

N = int(sys.argv[1]) if len(sys.argv) > 1 else 100
SEED = int(sys.argv[2]) if len(sys.argv) > 2 else 1
BUDGET = sys.argv[3] if len(sys.argv) > 3 else "2"
W = "/tmp/mut_repo"          # scratch worktree of /repo
H = "/tmp/mut_verif"         # scratch worktree of /verif
VD = "/tmp/mut_vdir"
TGT = "/tmp/mut_target"
OUT = "/verif/work/mutation_campaign.jsonl"
ORDER = ["C09", "C05", "C04", "C06", "C07", "C13", "C16", "C12", "C08", "C14", "C18", "C03",
         "C02", "C11", "C19", "C20", "C10", "C15", "C17", "C01"]

def sh(cmd, **kw):
    return subprocess.run(cmd, shell=True, capture_output=True, text=True, **kw)

def setup():
    sh(f"git -C /repo worktree remove --force {W}; rm -rf {W}; git -C /repo worktree add -q --detach {W} HEAD; cp /repo/Cargo.lock {W}/")
    sh(f"git -C /verif worktree remove --force {H}; rm -rf {H}; git -C /verif worktree add -q --detach {H} HEAD")
    sh(f"sed 's#@REPO@#{W}#' {H}/harness/Cargo.toml.in > {H}/harness/Cargo.toml; cp /verif/harness/Cargo.lock {H}/harness/ 2>/dev/null")
    os.makedirs(VD, exist_ok=True)
    sh(f"cp /verif/known_findings.json {VD}/")

# (file, first line, last line) of shipping code (1-based, inclusive); the cfg(test) copy of the
# recogniser and the unit tests are excluded
def regions():
    out = []
    src = open(f"{W}/src/screen.rs").read().split("\n")
    end = next(i for i, l in enumerate(src) if l.startswith("#[cfg(test)]"))
    out.append(("src/screen.rs", 150, end))
    p = open(f"{W}/src/parser.rs").read().split("\n")
    a = next(i for i, l in enumerate(p) if "#[cfg(not(test))]" in l) + 1
    b = next(i for i, l in enumerate(p) if l.strip() == "#[cfg(test)]" and i > a)
    out.append(("src/parser.rs", a, b))
    f = next(i for i, l in enumerate(p) if "pub fn feed(&mut self" in l)
    out.append(("src/parser.rs", f, f + 35))
    bp = open(f"{W}/src/byte_parser.rs").read().split("\n")
    e = next(i for i, l in enumerate(bp) if l.startswith("#[cfg(test)]"))
    out.append(("src/byte_parser.rs", 20, e))
    out.append(("src/parser_listener.rs", 90, 250))
    return out

OPS = [
    (r"<=", "<"), (r"(?<![<>=!-])<(?![<=])", "<="), (r">=", ">"), (r"(?<![<>=-])>(?![>=])", ">="),
    (r"==", "!="), (r"!=", "=="), (r"&&", "||"), (r"\|\|", "&&"),
    (r"\+ 1\b", "+ 2"), (r"\+ 1\b", ""), (r"- 1\b", ""), (r"- 1\b", "- 2"),
    (r"\.min\(", ".max("), (r"\.max\(", ".min("), (r"\btrue\b", "false"), (r"\bfalse\b", "true"),
    (r"saturating_sub", "wrapping_sub"), (r"\bSome\(0\)", "Some(1)"), (r"\bSome\(1\)", "Some(0)"),
    (r"\.\.=", ".."), (r"(?<!\.)\.\.(?![.=])", "..="), (r"unwrap_or\(1\)", "unwrap_or(0)"), (r"unwrap_or\(0\)", "unwrap_or(1)"),
    (r"\b255\b", "256"), (r"\b9999\b", "9998"), (r"\b132\b", "131"),
]

# second operator set (usage: ... <max> <seed> <budget> 2): coordinate / dimension swaps, forced
# conditions, constants, control flow
OPS2 = [
    (r"cursor\.x\b", "cursor.y"), (r"cursor\.y\b", "cursor.x"),
    (r"self\.columns\b", "self.lines"), (r"self\.lines\b", "self.columns"),
    (r"\btop\b", "bottom"), (r"\bbottom\b", "top"),
    (r"\bif (?!let\b)([^{]+) \{", "if true {"), (r"\bif (?!let\b)([^{]+) \{", "if false {"),
    (r"(?<![\w.])0(?![\w.])", "1"), (r"(?<![\w.])1(?![\w.])", "0"), (r"(?<![\w.])1(?![\w.])", "2"), (r"(?<![\w.])8(?![\w.])", "7"),
    (r"\.rev\(\)", ""), (r"\bcontinue;", "break;"), (r"\bbreak;", "continue;"), (r"^\s*return;", "// (return deleted)"),
    (r"\bcount\b(?!:)", "1"), (r"Some\(2\)", "Some(1)"), (r"Some\(3\)", "Some(2)"),
    (r"\.insert\(", ".remove(&"), (r"!(?=[a-z(])", ""), (r"\.is_some\(\)", ".is_none()"), (r"\.is_none\(\)", ".is_some()"),
    (r"\.is_empty\(\)", ".len() == 1"), (r"\+ count", "- count"), (r"- count", "+ count"), (r"\+=", "-="), (r"-=", "+="),
]
if len(sys.argv) > 4 and sys.argv[4] == "2":
    OPS = OPS2
    OUT = "/verif/work/mutation_campaign2.jsonl"

def candidates():
    c = []
    for (f, a, b) in regions():
        lines = open(f"{W}/{f}").read().split("\n")
        for i in range(a - 1, min(b, len(lines))):
            l = lines[i]
            s = l.strip()
            if not s or s.startswith("//") or s.startswith("#[") or "println!" in s or s.startswith("use "):
                continue
            code = l.split("//")[0]
            for (pat, rep) in OPS:
                for m in re.finditer(pat, code):
                    new = code[:m.start()] + rep + code[m.end():] + l[len(code):]
                    if new != l:
                        c.append((f, i + 1, pat, l, new))
            # statement deletion: a line that is a complete simple statement
            if OPS is OPS2:
                continue
            if re.match(r"^\s*self\.[a-z_\.]+\(.*\);\s*$", code) or re.match(r"^\s*self\.[a-z_\.]+ = .*;\s*$", code):
                c.append((f, i + 1, "delete-statement", l, re.match(r"^\s*", l).group(0) + "// (deleted)"))
    return c

def main():
    setup()
    cands = candidates()
    random.Random(SEED).shuffle(cands)
    done = set()
    if os.path.exists(OUT):
        for line in open(OUT):
            try:
                j = json.loads(line); done.add((j["file"], j["line"], j["after"]))
            except Exception:
                pass
    print(f"{len(cands)} candidate mutants, {len(done)} already done", flush=True)
    n = 0
    for (f, ln, op, before, after) in cands:
        if n >= N:
            break
        if (f, ln, after) in done:
            continue
        n += 1
        sh(f"git -C {W} checkout -- .")
        p = f"{W}/{f}"
        lines = open(p).read().split("\n")
        assert lines[ln - 1] == before
        lines[ln - 1] = after
        open(p, "w").write("\n".join(lines))
        rec = {"file": f, "line": ln, "op": op, "before": before.strip(), "after": after.strip(), "t": time.time()}
        b = sh(f"cd {H}/harness && CARGO_TARGET_DIR={TGT} cargo build --release --offline 2>&1 | tail -3")
        if "Finished" not in b.stdout:
            rec["status"] = "does-not-compile"
        else:
            t = sh(f"cd {W} && cargo test --workspace --no-fail-fast --offline 2>&1 | grep 'test result' | head -1", timeout=600)
            rec["unit_tests"] = "pass" if " 0 failed" in t.stdout and "91 passed" in t.stdout else "fail"
            rec["killed_by"] = None
            rec["inconclusive"] = []
            for cid in ORDER:
                try:
                    r = sh(f"VERIF_STALL=20 VERIF_NO_PAINT=1 VERIF_DIR={VD} {TGT}/release/mtverif run {cid} --tier quick --budget {BUDGET} 2>&1 | grep -m1 -E 'signature:|^INCONCLUSIVE'", timeout=400)
                except subprocess.TimeoutExpired:
                    rec["inconclusive"].append(cid); continue
                if "signature:" in r.stdout:
                    rec["killed_by"] = cid
                    rec["signature"] = r.stdout.strip().replace("signature: ", "")
                    break
                if "INCONCLUSIVE" in r.stdout:
                    rec["inconclusive"].append(cid)
            rec["status"] = "killed" if rec["killed_by"] else "SURVIVED"
        rec["secs"] = round(time.time() - rec["t"], 1)
        with open(OUT, "a") as o:
            o.write(json.dumps(rec) + "\n")
        print(n, rec["status"], rec.get("killed_by"), rec.get("unit_tests"), f, ln, op, "|", rec["after"][:70], flush=True)
    sh(f"git -C /repo worktree remove --force {W}; git -C /verif worktree remove --force {H}")

if __name__ == "__main__":
    main()
